#!/usr/bin/env python3
"""Re-run the checks named in each seeded/<id>/meta.json against that change (tools/try_mutant.sh, scratch worktree)
and bring 'caught_by' up to date.  A check that missed the change when it was first tried and catches it now is kept
under 'missed_at_first_by' so that DESIGN.md can say which checks were strengthened because of it.
usage: tools/recheck_seeded.py [--only ID ...] [--tier quick|thorough] [-P N]"""
import argparse
import concurrent.futures
import json
import os
import subprocess

HERE = os.path.dirname(os.path.dirname(os.path.abspath(__file__)))


def one(sid, tier, jobs):
    d = os.path.join(HERE, 'seeded', sid)
    meta = json.load(open(os.path.join(d, 'meta.json')))
    caught = []
    lines = []
    order = meta['checks_tried']
    if FIRST_ONLY:
        # the checks that caught it last time first; stop at the first one that reports it now
        order = [c for c in order if c in meta.get('caught_by', [])] + [c for c in order if c not in meta.get('caught_by', [])]
    for chk in order:
        env = dict(os.environ, VERIF_JOBS=str(jobs), SHOW='3')
        r = subprocess.run([os.path.join(HERE, 'tools', 'try_mutant.sh'), os.path.join(d, 'patch.diff'), tier, chk],
                           capture_output=True, text=True, errors='replace', env=env)
        first = r.stdout.strip().split('\n')[0] if r.stdout.strip() else r.stderr.strip()[:200]
        lines.append('%s %s' % (sid, first))
        if 'rc=1' in first:
            caught.append(chk)
            if FIRST_ONLY:
                meta['not_rerun'] = [c for c in order if c != chk and c not in caught]
                break
            key = [ln.strip() for ln in r.stdout.split('\n') if ln.strip().startswith('key=')]
            if key:
                meta.setdefault('first_violation_key', {})[chk] = key[0][:160]
    old = meta.get('caught_by', [])
    missed_first = sorted(set(meta.get('missed_at_first_by', [])) | {c for c in caught if c not in old and 'rechecked' not in meta})
    if tier == 'quick':
        meta['caught_by'] = caught
        meta['missed_at_first_by'] = [c for c in missed_first]
        meta['rechecked'] = True
    else:
        meta['caught_by_thorough'] = caught
    json.dump(meta, open(os.path.join(d, 'meta.json'), 'w'), indent=1)
    return lines, sid, caught, meta['checks_tried']


FIRST_ONLY = False


def main():
    global FIRST_ONLY
    ap = argparse.ArgumentParser()
    ap.add_argument('--first-only', action='store_true')
    ap.add_argument('--skip', help='file with ids (one per line) that need not be run again')
    ap.add_argument('--only', nargs='*')
    ap.add_argument('--tier', default='quick')
    ap.add_argument('-P', type=int, default=3)
    a = ap.parse_args()
    ids = sorted(os.listdir(os.path.join(HERE, 'seeded')))
    if a.only:
        ids = [i for i in ids if i in a.only]
    # changes that the fix commits made harmless (meta.json status 'obsolete') are kept for the record only
    ids = [i for i in ids if json.load(open(os.path.join(HERE, 'seeded', i, 'meta.json'))).get('status') != 'obsolete']
    FIRST_ONLY = a.first_only
    if a.skip:
        done = set(open(a.skip).read().split())
        ids = [i for i in ids if i not in done]
    jobs = max(2, 16 // a.P)
    with concurrent.futures.ThreadPoolExecutor(a.P) as ex:
        for lines, sid, caught, tried in ex.map(lambda s: one(s, a.tier, jobs), ids):
            for ln in lines:
                print(ln, flush=True)
            print('   %s caught_by=%s%s' % (sid, caught, '' if caught else '   <-- MISSED by %s' % tried), flush=True)


if __name__ == '__main__':
    main()
