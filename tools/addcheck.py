#!/usr/bin/env python3
"""usage: tools/addcheck.py <seeded id> <Cnn> [Cnn...]  - add checks to the list that recheck_seeded.py tries for a seeded change"""
import json, sys
p = '/verif/seeded/%s/meta.json' % sys.argv[1]
m = json.load(open(p))
for c in sys.argv[2:]:
    if c not in m['checks_tried']:
        m['checks_tried'].append(c)
json.dump(m, open(p, 'w'), indent=1, ensure_ascii=False)
