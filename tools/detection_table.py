#!/usr/bin/env python3
"""Rewrites the table between the DETECTION-TABLE markers of DESIGN.md from seeded/*/meta.json."""
import json
import os
import re

HERE = os.path.dirname(os.path.dirname(os.path.abspath(__file__)))
rows = []
n = caught = 0
for sid in sorted(os.listdir(os.path.join(HERE, 'seeded'))):
    p = os.path.join(HERE, 'seeded', sid, 'meta.json')
    if not os.path.exists(p):
        continue
    m = json.load(open(p))
    n += 1
    cb = m.get('caught_by', [])
    caught += bool(cb)
    missed_first = m.get('missed_at_first_by', [])
    others = [c for c in m.get('checks_tried', []) if c not in cb]
    note = ''
    if missed_first:
        note = 'missed at first by %s; check strengthened' % ', '.join(missed_first)
    if m.get('note'):
        note = (note + '; ' if note else '') + m['note']
    needs = m['needs_to_manifest'].replace('|', '/')
    rows.append('| %s | %s | %s | %s | %s |' % (sid, needs[:150], ', '.join(cb) or '**none**', ', '.join(others) or '-', note or '-'))
table = ['| seeded change | needs, to manifest | caught by (quick tier) | also tried, silent | remarks |', '|---|---|---|---|---|'] + rows
table.append('')
table.append('%d seeded changes, %d caught by at least one quick check.' % (n, caught))
s = open(os.path.join(HERE, 'DESIGN.md')).read()
a = s.index('<!-- DETECTION-TABLE-BEGIN -->') + len('<!-- DETECTION-TABLE-BEGIN -->')
b = s.index('<!-- DETECTION-TABLE-END -->')
s = s[:a] + '\n' + '\n'.join(table) + '\n' + s[b:]
open(os.path.join(HERE, 'DESIGN.md'), 'w').write(s)
print('%d seeded, %d caught' % (n, caught))
