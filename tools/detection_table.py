#!/usr/bin/env python3
"""Rewrites the table between the DETECTION-TABLE markers of DESIGN.md from seeded/*/meta.json."""
import json
import os
import re

HERE = os.path.dirname(os.path.dirname(os.path.abspath(__file__)))
rows = []
obsolete = []
n = caught = 0
for sid in sorted(os.listdir(os.path.join(HERE, 'seeded'))):
    p = os.path.join(HERE, 'seeded', sid, 'meta.json')
    if not os.path.exists(p):
        continue
    m = json.load(open(p))
    if m.get('status') == 'obsolete':
        # the repairs of /repo removed what the change needs (or made the same change deliberately): kept for the record
        obsolete.append(sid)
        rows.append('| %s | %s | (obsolete: %s) | - | caught before the repair by %s |' % (
            sid, m['needs_to_manifest'].replace('|', '/')[:150], m.get('obsolete_note', '').split('. ', 1)[-1].replace('|', '/').replace('\n', ' ')[:160],
            ', '.join(m.get('caught_by', [])) or '-'))
        continue
    n += 1
    cb = m.get('caught_by', [])
    caught += bool(cb)
    missed_first = m.get('missed_at_first_by', [])
    others = [c for c in m.get('checks_tried', []) if c not in cb and c not in m.get('not_rerun', [])]
    note = ''
    if m.get('not_rerun'):
        note = 'last run stopped at the first check that reports it (not re-run: %s)' % ', '.join(m['not_rerun'])
    if missed_first:
        note = (note + '; ' if note else '') + 'missed at first by %s; check strengthened' % ', '.join(missed_first)
    if m.get('note'):
        note = (note + '; ' if note else '') + m['note']
    needs = m['needs_to_manifest'].replace('|', '/')
    rows.append('| %s | %s | %s | %s | %s |' % (sid, needs[:150], ', '.join(cb) or '**none**', ', '.join(others) or '-', note or '-'))
table = ['| seeded change | needs, to manifest | caught by (quick tier) | also tried, silent | remarks |', '|---|---|---|---|---|'] + rows
table.append('')
table.append('%d live seeded changes, %d caught by at least one quick check; %d more are obsolete on the repaired tree (%s).' % (
    n, caught, len(obsolete), ', '.join(obsolete)))
s = open(os.path.join(HERE, 'DESIGN.md')).read()
a = s.index('<!-- DETECTION-TABLE-BEGIN -->') + len('<!-- DETECTION-TABLE-BEGIN -->')
b = s.index('<!-- DETECTION-TABLE-END -->')
s = s[:a] + '\n' + '\n'.join(table) + '\n' + s[b:]
open(os.path.join(HERE, 'DESIGN.md'), 'w').write(s)
print('%d seeded, %d caught' % (n, caught))
