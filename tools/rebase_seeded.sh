#!/bin/bash
# usage: tools/rebase_seeded.sh <id>...  - re-base seeded/<id>/patch.diff onto /repo HEAD with a 3-way merge, confirm it again
# (180 tests pass with it, demo fails with it and passes without) and store the new diff; prints one line per id
for ID in "$@"; do
  D=/verif/seeded/$ID
  WT=$(mktemp -d /tmp/rebase_wt_XXXXXX)
  git -C /repo worktree add -q --detach $WT HEAD || exit 9
  ( cd $WT
    if ! git apply -3 $D/patch.diff >/dev/null 2>&1 || git diff --name-only --diff-filter=U | grep -q .; then echo "$ID CONFLICT"; exit 0; fi
    git diff HEAD > $WT.diff
    T=$(PYTHONPATH=$WT /venv/bin/python -m pytest -q -p no:cacheprovider tests 2>&1 | tail -1)
    PYTHONPATH=$WT timeout 300 /venv/bin/python $D/demo.py >/dev/null 2>&1; W=$?
    git checkout -q HEAD -- . ; git reset -q --hard HEAD
    PYTHONPATH=$WT timeout 300 /venv/bin/python $D/demo.py >/dev/null 2>&1; WO=$?
    case "$T" in *"180 passed"*) ok=1;; *) ok=0;; esac
    if [ $ok = 1 ] && [ $W -ne 0 ] && [ $WO -eq 0 ]; then
      cp $WT.diff $D/patch.diff
      python3 - "$D" "$(git -C /repo rev-parse --short HEAD)" <<'PY'
import json, sys
d, head = sys.argv[1:3]
m = json.load(open(d + '/meta.json'))
w = m.get('what_was_run')
note = 'patch re-based onto /repo %s with a 3-way merge and confirmed again (180 tests pass, demo fails with it, passes without)' % head
if isinstance(w, list): w.append(note)
else: m['what_was_run'] = [str(w), note]
json.dump(m, open(d + '/meta.json', 'w'), indent=1)
PY
      echo "$ID REBASED"
    else
      echo "$ID NOT-CONFIRMED tests='$T' demo_with=$W demo_without=$WO"
    fi )
  git -C /repo worktree remove --force $WT 2>/dev/null; rm -rf $WT $WT.diff
done
