#!/bin/bash
# usage: tools/try_mutant.sh <patch.diff> [quick|thorough] <Cnn> [Cnn...]
# Applies the patch to a scratch worktree of /repo (outside /repo and /verif), points the checks at it with
# YATIML_VERIF_REPO, runs them and removes the worktree.  /repo itself is never touched, so several
# mutants can be tried at the same time.  (Applying the patch to /repo and running ./check gives the same
# result: the checks import yatiml from $YATIML_VERIF_REPO, default /repo.)
# Exit status: number of checks that did NOT report a violation.  VERIF_JOBS limits the processes per check.
PATCH="$(realpath "$1")"; shift
TIER=quick
if [ "$1" = quick ] || [ "$1" = thorough ]; then TIER=$1; shift; fi
WT=$(mktemp -d /tmp/mutant_wt_XXXXXX)
git -C /repo worktree add -q --detach "$WT" HEAD || exit 99
trap 'git -C /repo worktree remove --force "$WT" 2>/dev/null; rm -rf "$WT"' EXIT
git -C "$WT" apply "$PATCH" || { echo "patch does not apply"; exit 98; }
missed=0
for p in "$@"; do
  out=$(cd /verif && YATIML_VERIF_REPO="$WT" VERIF_EVIDENCE_DIR="$WT/.evidence" ./check $p --tier $TIER --no-fresh-replay 2>&1)
  rc=$?
  nv=$(echo "$out" | grep -c '^VIOLATION')
  echo "== $p rc=$rc violations=$nv $(echo "$out" | grep -m1 'wall=' | sed 's/.*wall=/wall=/')"
  echo "$out" | grep -A2 '^VIOLATION\|^VACUOUS\|^HARNESS' | head -${SHOW:-6} | cut -c1-300
  [ $rc -eq 1 ] || missed=$((missed+1))
done
exit $missed
