#!/bin/bash
# usage: tools/try_mutant.sh <patch.diff> [tier] <Cnn> [Cnn...]   - applies the patch to /repo, runs the checks, reverts.
# Never leaves /repo modified.  Exit status: number of checks that did NOT report a violation.
PATCH="$(realpath "$1")"; shift
TIER=quick
if [ "$1" = quick ] || [ "$1" = thorough ]; then TIER=$1; shift; fi
cd /repo || exit 99
if [ -n "$(git status --porcelain --untracked-files=no)" ]; then echo "/repo is dirty"; exit 99; fi
git apply "$PATCH" || { echo "patch does not apply"; exit 98; }
trap 'git -C /repo checkout -- . ' EXIT
missed=0
for p in "$@"; do
  out=$(cd /verif && ./check $p --tier $TIER --no-fresh-replay 2>&1)
  rc=$?
  nv=$(echo "$out" | grep -c '^VIOLATION')
  echo "== $p rc=$rc violations=$nv $(echo "$out" | grep -m1 'wall=' | sed 's/.*wall=/wall=/')"
  echo "$out" | grep -A2 '^VIOLATION' | head -${SHOW:-6} | cut -c1-300
  [ $rc -eq 1 ] || missed=$((missed+1))
done
exit $missed
