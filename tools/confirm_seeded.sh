#!/bin/bash
# usage: tools/confirm_seeded.sh <Cnn> <a|b|..> "<needs>" [checks to run against it...]
# Confirms an agent-written seeded defect (/tmp/mut/<Cnn>/<x>.diff, demo_<x>.py, <x>.txt) in a scratch worktree:
# the 180 tests pass with it, the demo fails with it and passes without it.  Then stores it under
# /verif/seeded/<Cnn>-<x>/ and runs the named checks against it (tools/try_mutant.sh).
ID=$1; X=$2; NEEDS=$3; shift 3
SRC=${SEED_SRC:-/tmp/mut}/$ID
WT=$(mktemp -d /tmp/confirm_wt_XXXXXX)
git -C /repo worktree add -q --detach $WT HEAD || exit 9
cleanup() { git -C /repo worktree remove --force $WT 2>/dev/null; rm -rf $WT; }
trap cleanup EXIT
cd $WT
git apply $SRC/$X.diff || { echo "$ID-$X PATCH DOES NOT APPLY"; exit 8; }
T=$(PYTHONPATH=$WT /venv/bin/python -m pytest -q -p no:cacheprovider tests 2>&1 | tail -1)
PYTHONPATH=$WT timeout 300 /venv/bin/python $SRC/demo_$X.py >/dev/null 2>&1; RC_WITH=$?
git checkout -q -- .
PYTHONPATH=$WT timeout 300 /venv/bin/python $SRC/demo_$X.py >/dev/null 2>&1; RC_WITHOUT=$?
echo "$ID-$X: tests='$T' demo_with=$RC_WITH demo_without=$RC_WITHOUT"
case "$T" in *"180 passed"*) ;; *) echo "$ID-$X TESTS DO NOT PASS"; exit 7;; esac
[ $RC_WITH -ne 0 ] && [ $RC_WITHOUT -eq 0 ] || { echo "$ID-$X DEMO DOES NOT DISCRIMINATE"; exit 6; }
cd /verif
D=/verif/seeded/$ID-$X
mkdir -p $D
cp $SRC/$X.diff $D/patch.diff; cp $SRC/demo_$X.py $D/demo.py; cp $SRC/$X.txt $D/description.txt
CAUGHT=""
for p in "$@"; do
  out=$(tools/try_mutant.sh $D/patch.diff $p 2>&1 | head -4)
  echo "   $ID-$X $(echo "$out" | head -1)"
  echo "$out" | sed -n 2,4p | cut -c1-260 | sed 's/^/      /'
  case "$out" in *"rc=1"*) CAUGHT="$CAUGHT $p";; esac
done
python3 - "$ID" "$X" "$NEEDS" "$T" "$RC_WITH" "$RC_WITHOUT" "$CAUGHT" "$*" <<'PY'
import json, sys, subprocess
pid, x, needs, t, rw, rwo, caught, tried = sys.argv[1:9]
head = subprocess.run(['git', '-C', '/repo', 'rev-parse', '--short', 'HEAD'], capture_output=True, text=True).stdout.strip()
meta = {'breaks_property': pid, 'needs_to_manifest': needs,
        'what_was_run': ['git apply patch.diff in a scratch worktree of /repo at %s' % head,
                         'pytest tests with the change: %s' % t,
                         'demo.py with the change: exit %s; without: exit %s' % (rw, rwo)],
        'checks_tried': tried.split(), 'caught_by': caught.split(),
        'source': 'written by an independent sub-agent that saw only the property text'}
json.dump(meta, open('/verif/seeded/%s-%s/meta.json' % (pid, x), 'w'), indent=1)
print('   stored seeded/%s-%s caught_by=%s' % (pid, x, caught))
PY
