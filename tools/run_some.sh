#!/bin/bash
# usage: tools/run_some.sh <quick|thorough> Cnn...   - like run_all.sh for the named checks
TIER=$1; shift
cd "$(dirname "$0")/.." || exit 2
bad=0
for p in "$@"; do
  out=$(./check $p --tier $TIER 2>&1); rc=$?
  echo "$p rc=$rc $(echo "$out" | grep -m1 'wall=' | sed 's/.*states=/states=/') known=$(echo "$out" | grep -c '^KNOWN-FINDING') viol=$(echo "$out" | grep -c '^VIOLATION')"
  [ $rc -eq 0 ] || { bad=$((bad+1)); echo "$out" | grep -A3 '^VIOLATION\|^VACUOUS\|^HARNESS' | head -12 | cut -c1-300; }
done
exit $bad
