#!/usr/bin/env python3
"""Rewrites the table between the COVERAGE-TABLE markers of DESIGN.md from evidence/*.json (last run of each check)."""
import glob
import json
import os

HERE = os.path.dirname(os.path.dirname(os.path.abspath(__file__)))
rows = ['| check | tier of last run | states | transitions | cases run against /repo | non-trivial | exhaustive within bounds | wall s |',
        '|---|---|---|---|---|---|---|---|']
for p in sorted(glob.glob(os.path.join(HERE, 'evidence', 'C*.json'))):
    e = json.load(open(p))
    c = e['coverage']
    rows.append('| %s | %s | %d | %d | %d | %d | %s | %.0f |' % (
        e['property_id'], e['tier'], c['states'], c['transitions'], c['traces_validated_against_impl'], c['distinct_nontrivial'],
        'yes' if c.get('exhaustive') else 'no: ' + '; '.join(map(str, c.get('caps_hit', []))), e['wall_s']))
s = open(os.path.join(HERE, 'DESIGN.md')).read()
a = s.index('<!-- COVERAGE-TABLE-BEGIN -->') + len('<!-- COVERAGE-TABLE-BEGIN -->')
b = s.index('<!-- COVERAGE-TABLE-END -->')
s = s[:a] + '\n' + '\n'.join(rows) + '\n' + s[b:]
open(os.path.join(HERE, 'DESIGN.md'), 'w').write(s)
print('\n'.join(rows))
