#!/bin/bash
# usage: SEED_SRC=/tmp/mut6 tools/wave.sh <Cnn> [letters...]   - confirm the changes an agent left in $SEED_SRC/<Cnn> and try the
# check of the property (plus any named in EXTRA) against each; prints one block per change
ID=$1; shift
LET=${@:-m n o}
for x in $LET; do
  [ -f $SEED_SRC/$ID/$x.diff ] || { echo "$ID-$x: no diff"; continue; }
  needs=$(tr '\n' ' ' < $SEED_SRC/$ID/$x.txt | cut -c1-420)
  tools/confirm_seeded.sh $ID $x "$needs" $ID $EXTRA
done
