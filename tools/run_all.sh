#!/bin/bash
# usage: tools/run_all.sh [quick|thorough]   - runs every check of MANIFEST.json on /repo, prints one line per check with its exit status
TIER=${1:-quick}
cd "$(dirname "$0")/.." || exit 2
bad=0
for p in C01 C02 C03 C04 C05 C06 C07 C08 C09 C10 C11 C12 C13 C14 C15 C16 C17 C18; do
  out=$(./check $p --tier $TIER 2>&1); rc=$?
  echo "$p rc=$rc $(echo "$out" | grep -m1 'wall=' | sed 's/.*states=/states=/') known=$(echo "$out" | grep -c '^KNOWN-FINDING') viol=$(echo "$out" | grep -c '^VIOLATION')"
  [ $rc -eq 0 ] || { bad=$((bad+1)); echo "$out" | grep -A3 '^VIOLATION\|^VACUOUS\|^HARNESS' | head -12 | cut -c1-300; }
done
exit $bad
