"""Model catalogues: each family is enumerated completely (DESIGN.md 2.2)."""
import itertools

BASE = [
    {'name': 'E', 'kind': 'enum', 'members': ['red', 'true', 'blue']},
    {'name': 'S', 'kind': 'userstring'},
    {'name': 'In', 'params': [('p', 'int'), ('q', 'str', 'dq')]},
]
# the type alphabet
TYPES = ['int', 'str', 'float', 'bool', 'date', 'path', 'any', ('opt', 'int'), ('union', ['int', 'str']),
         ('list', 'int'), ('dict', 'str', 'int'), ('cls', 'E'), ('cls', 'S'), ('cls', 'In')]
TYPES_MORE = ['none', ('union', ['bool', 'int']), ('union', ['buf', 'int']), ('union', ['float', 'bool', 'str']),
              ('opt', ('cls', 'In')), ('list', ('cls', 'In')), ('dict', 'str', ('cls', 'In')),
              ('dict', ('cls', 'S'), 'int'), ('list', ('opt', 'str')), ('union', [('cls', 'E'), 'int']),
              ('list', 'any'), ('dict', 'str', 'any'), ('union', [('list', 'int'), ('dict', 'str', 'int')]),
              ('list', 'int', 'Sequence'), ('dict', 'str', 'int', 'Mapping'), ('list', ('list', 'int'))]


def _p(name, t, default=False, dval=None):
    return (name, t, dval) if default else (name, t)


def root_models():
    """family (a): every root type; and one level of List / Dict around it"""
    for t in TYPES + TYPES_MORE:
        yield 'root', {'classes': BASE, 'root': t}
    for t in TYPES:
        yield 'root-list', {'classes': BASE, 'root': ('list', t)}
        yield 'root-dict', {'classes': BASE, 'root': ('dict', 'str', t)}
        yield 'root-opt', {'classes': BASE, 'root': ('opt', t)}


def one_param_models():
    """family (b1): K(a_b: T) for every T, required/defaulted, with/without _yatiml_extra"""
    for t in TYPES + TYPES_MORE:
        for d in (False, True):
            for extra in (False, True):
                yield 'class1', {'classes': BASE + [{'name': 'K', 'params': [_p('a_b', t, d)], 'extra': extra}],
                                 'root': ('cls', 'K')}
    for t in TYPES:
        yield 'class1-untyped', {'classes': BASE + [{'name': 'K', 'params': [('x', t), ('u', 'untyped')]}],
                                 'root': ('cls', 'K')}


def two_param_models(full=True):
    """family (b2): K(x: T1, y: T2 [= None])"""
    t1s = TYPES if full else TYPES[:10:3]
    for t1, t2 in itertools.product(t1s, TYPES):
        for d2 in (False, True):
            yield 'class2', {'classes': BASE + [{'name': 'K', 'params': [('x', t1), _p('y', t2, d2)]}],
                             'root': ('cls', 'K')}


def nested_models():
    """classes nested one level, string-like kinds, defaults of each kind, dashed names"""
    for kind in ('userstring', 'strsub', 'ystring'):
        cl = BASE + [{'name': 'W', 'kind': kind}]
        yield 'strlike', {'classes': cl, 'root': ('cls', 'W')}
        yield 'strlike', {'classes': cl, 'root': ('dict', ('cls', 'W'), 'int')}
        yield 'strlike', {'classes': cl + [{'name': 'K', 'params': [('w', ('cls', 'W')), ('v', ('list', ('cls', 'W')), None)]}],
                          'root': ('cls', 'K')}
    for dt, dv in (('int', 7), ('str', 'd'), ('float', 2.5), ('bool', True), ('bool', False), (('opt', 'int'), None),
                   (('list', 'int'), None), (('opt', ('cls', 'In')), None)):
        yield 'defaults', {'classes': BASE + [{'name': 'K', 'params': [('x', 'int'), ('y', dt, dv)]}], 'root': ('cls', 'K')}
    yield 'nested', {'classes': BASE + [{'name': 'K', 'params': [('i', ('cls', 'In')), ('l', ('list', ('cls', 'In')), None),
                                                                 ('d', ('dict', 'str', ('cls', 'In')), None)]}],
                     'root': ('cls', 'K')}
    yield 'nested', {'classes': BASE + [{'name': 'K', 'params': [('e', ('cls', 'E')), ('u', ('union', [('cls', 'E'), 'int']), None)]}],
                     'root': ('list', ('cls', 'K'))}
    for mix in ('str', 'int'):
        em = {'name': 'Em', 'kind': 'enum', 'mixin': mix, 'members': ['high', 'true', 'low']}
        yield 'enum-mixin', {'classes': BASE + [em], 'root': ('list', ('cls', 'Em'))}
        yield 'enum-mixin', {'classes': BASE + [em, {'name': 'K', 'params': [('e', ('cls', 'Em')), ('s', 'str', 'high')]}],
                             'root': ('cls', 'K')}
    yield 'underscore-param', {'classes': BASE + [{'name': 'K', 'params': [('x', 'int'), ('_y', 'int', 0), ('_a', 'any', None)]}],
                               'root': ('cls', 'K')}
    yield 'underscore-param', {'classes': BASE + [{'name': 'K', 'params': [('_x', ('cls', 'In')), ('_l', ('list', 'int'), None)],
                                                   'extra': True}], 'root': ('cls', 'K')}
    # a parameter annotated with the literal None (PEP 484 spelling of NoneType)
    yield 'none-literal', {'classes': BASE + [{'name': 'K', 'params': [('n', 'none'), ('x', 'int', 0)], 'none_literal': True}],
                           'root': ('cls', 'K')}
    yield 'none-literal', {'classes': BASE + [{'name': 'K', 'params': [('x', 'int'), ('n', 'none', None)], 'none_literal': True}],
                           'root': ('list', ('cls', 'K'))}
    yield 'extra-middle', {'classes': BASE + [{'name': 'K', 'params': [('x', 'int'), ('y', 'int', 0)], 'extra': True, 'extra_pos': 1}],
                           'root': ('cls', 'K')}
    yield 'dashed', {'classes': BASE + [{'name': 'K', 'params': [('a_b', 'int'), ('c_d_e', 'str', 'x')], 'extra': True}],
                     'root': ('cls', 'K')}


def seasoned_models():
    """declarative seasoning (each with its sugared documents)"""
    S = lambda v: ('s', 'str', v)   # noqa
    I = lambda v: ('s', 'int', v)   # noqa
    M = lambda ps: ('m', 'map', ps)  # noqa
    yield 'season', {'classes': BASE + [{'name': 'K', 'params': [('a_b', 'int'), ('c_d', 'str', 'x')],
                                         'hooks': {'savorize': [('dashes_to_unders',)]},
                                         'docs': [M([(S('a-b'), I('1'))]), M([(S('a-b'), I('1')), (S('c-d'), S('v'))]),
                                                  M([(S('a-b'), I('1')), (S('a_b'), I('2'))])]}],
                     'root': ('cls', 'K')}
    # dashes_to_unders together with _yatiml_extra: both spellings of an unknown key become the same key
    yield 'season', {'classes': BASE + [{'name': 'K', 'params': [('a_b', 'int'), ('c_d', 'str', 'x')], 'extra': True,
                                         'hooks': {'savorize': [('dashes_to_unders',)]},
                                         'docs': [M([(S('a-b'), I('1')), (S('x-y'), S('dashed')), (S('x_y'), S('unders'))]),
                                                  M([(S('a-b'), I('1')), (S('x_y'), S('unders')), (S('x-y'), S('dashed'))]),
                                                  M([(S('a_b'), I('1')), (S('x-y'), I('2'))]),
                                                  M([(S('a-b'), I('1')), (S('c-d'), S('v')), (S('c_d'), S('w'))])]}],
                     'root': ('cls', 'K')}
    # parameters with two underscores: a key may have some of them as dashes
    yield 'season', {'classes': BASE + [{'name': 'K', 'params': [('a_b_c', 'int'), ('d_e_f', 'str', 'x')],
                                         'hooks': {'savorize': [('dashes_to_unders',)]},
                                         'docs': [M([(S('a-b-c'), I('1'))]), M([(S('a-b_c'), I('1'))]), M([(S('a_b-c'), I('1')), (S('d-e_f'), S('v'))]),
                                                  M([(S('a_b_c'), I('1')), (S('d_e-f'), S('v'))]), M([(S('a-b_c'), I('1')), (S('a_b-c'), I('2'))])]},
                                        {'name': 'H', 'params': [('k', ('cls', 'K')), ('n', 'int', 0)]}],
                     'root': ('cls', 'H')}
    yield 'season', {'classes': BASE + [{'name': 'K', 'params': [('new', 'int')],
                                         'hooks': {'savorize': [('rename', 'old', 'new')]},
                                         'docs': [M([(S('old'), I('1'))]), M([(S('old'), I('1')), (S('new'), I('2'))])]}],
                     'root': ('cls', 'K')}
    item = {'name': 'It', 'params': [('id', 'str'), ('v', 'int'), ('w', 'str', 'dw')]}
    yield 'season', {'classes': BASE + [item, {'name': 'K', 'params': [('items', ('list', ('cls', 'It')))],
                                               'hooks': {'savorize': [('map_to_seq', 'items', 'id', 'v')]},
                                               'docs': [M([(S('items'), M([(S('i1'), I('1')), (S('i2'), M([(S('v'), I('2')), (S('w'), S('z'))]))]))]),
                                                        M([(S('items'), M([]))]),
                                                        M([(S('items'), M([(S('i1'), S('notint'))]))])]}],
                     'root': ('cls', 'K')}
    yield 'season', {'classes': BASE + [item, {'name': 'K', 'params': [('items', ('dict', 'str', ('cls', 'It')))],
                                               'hooks': {'savorize': [('map_to_index', 'items', 'id', 'v')]},
                                               'docs': [M([(S('items'), M([(S('i1'), I('1')), (S('i2'), M([(S('v'), I('2'))]))]))]),
                                                        M([(S('items'), M([(S('i1'), M([(S('v'), I('2')), (S('id'), S('i1'))]))]))])]}],
                     'root': ('cls', 'K')}
    yield 'season', {'classes': BASE + [{'name': 'K', 'params': [('v', 'int'), ('w', 'str', 'dw')],
                                         'hooks': {'savorize': [('scalar_to_attr', 'v')]},
                                         'docs': [I('5'), S('nope')]}],
                     'root': ('list', ('cls', 'K'))}


def hook_sharing_models():
    """a savorize that uses ONE node for two attributes ("billing defaults to the address": set_attribute(b,
    get_attribute(a).yaml_node)), which only documented API is needed for; the two attributes have different types"""
    S = lambda v: ('s', 'str', v)   # noqa
    I = lambda v: ('s', 'int', v)   # noqa
    M = lambda ps: ('m', 'map', ps)  # noqa
    em = {'name': 'Em', 'kind': 'enum', 'members': ['red', 'blue'], 'mixin': 'str'}
    tag = {'name': 'Tg', 'kind': 'strsub'}
    inn = {'name': 'I2', 'params': [('p', 'int'), ('s_q', 'int', 0)], 'hooks': {'savorize': [('stamp', 's_q')]}}
    for ta, tb, da in (('str', ('cls', 'Em'), [S('red'), S('green')]), ('str', ('cls', 'Tg'), [S('red')]), ('str', 'path', [S('a/b')]),
                       ('path', 'path', [S('a/b')]), (('cls', 'Em'), 'str', [S('red')]), ('any', ('cls', 'Em'), [S('blue'), I('1')]),
                       (('cls', 'In'), ('cls', 'In'), [M([(S('p'), I('1'))])]), (('cls', 'I2'), ('cls', 'I2'), [M([(S('p'), I('1'))])]),
                       (('list', 'str'), ('list', ('cls', 'Em')), [('q', 'seq', [S('red'), S('blue')])]),
                       (('dict', 'str', 'int'), ('dict', ('cls', 'Tg'), 'int'), [M([(S('red'), I('1'))])])):
        k = {'name': 'K', 'params': [('a', ta), ('b', tb)],
             'hooks': {'recognize': [('require_attr', 'a')], 'savorize': [('share_attr', 'a', 'b')]},
             'docs': [M([(S('a'), d)]) for d in da] + [M([(S('a'), d), (S('b'), d)]) for d in da]}
        yield 'hook-sharing', {'classes': BASE + [em, tag, inn, k], 'root': ('cls', 'K')}
        yield 'hook-sharing', {'classes': BASE + [em, tag, inn, k], 'root': ('list', ('cls', 'K'))}
        # the hooks are defined on a registered base class and only inherited by the class that is loaded
        kb = dict(k, name='Kb', docs=[])
        kd = {'name': 'K', 'bases': ['Kb'], 'params': list(k['params']) + [('c', 'int', 0)], 'docs': k['docs'],
              'hooks': {'recognize': [('require_attr', 'a')]}}
        yield 'hook-sharing', {'classes': BASE + [em, tag, inn, kb, kd], 'root': ('cls', 'K')}


def union_class_models():
    """two unrelated classes in a Union; which one a mapping is depends on the REQUIRED parameters of each, also when the
    class has defaulted parameters followed by a (then necessarily defaulted) _yatiml_extra"""
    for extra in (True, False):
        for kparams in ([('x', 'int'), ('y', 'int', 0)], [('x', 'int'), ('w', 'str'), ('y', 'int', 0), ('v', 'str', 'd')],
                        [('x', 'int')], [('y', 'int', 0)]):
            k = {'name': 'K', 'params': kparams, 'extra': extra}
            l_ = {'name': 'L', 'params': [('z', ('list', 'str'))]}
            l2 = {'name': 'L', 'params': [('z', ('list', 'str')), ('y', 'int', 1)], 'extra': True}
            for other in (l_, l2):
                yield 'union-classes', {'classes': BASE + [k, other], 'root': ('union', [('cls', 'K'), ('cls', 'L')])}
                yield 'union-classes', {'classes': BASE + [k, other], 'root': ('list', ('union', [('cls', 'L'), ('cls', 'K')]))}


def element_order_models():
    """a collection whose items are recognised one by one: an ambiguous item and an unrecognisable item in either
    order; the collection is a Union member / an attribute of a class that competes with another class"""
    fork = [{'name': 'F0', 'params': [('x', 'int')]}, {'name': 'F1', 'bases': ['F0'], 'params': [('x', 'int')]},
            {'name': 'F2', 'bases': ['F0'], 'params': [('x', 'int')]}]
    S1 = lambda v: ('s', 'str', v)     # noqa
    I1 = lambda v: ('s', 'int', v)     # noqa
    amb = ('m', 'map', [(S1('x'), I1('1'))])
    for coll in ('list', 'dict'):
        t_amb = ('list', ('cls', 'F0')) if coll == 'list' else ('dict', 'str', ('cls', 'F0'))
        t_any = ('list', 'any') if coll == 'list' else ('dict', 'str', 'any')
        t_u = ('list', ('union', ['int', 'str'])) if coll == 'list' else ('dict', 'str', ('union', ['int', 'str']))

        def mk(items):
            if coll == 'list':
                return ('q', 'seq', list(items))
            return ('m', 'map', [(S1('k%d' % i), it) for i, it in enumerate(items)])
        extra = [mk([amb, I1('5')]), mk([I1('5'), amb]), mk([amb, amb]), mk([I1('5'), I1('6')]), mk([amb, I1('5'), amb])]
        ka = {'name': 'Ka', 'params': [('l', t_amb)], 'docs': [('m', 'map', [(S1('l'), e)]) for e in extra]}
        kb = {'name': 'Kb', 'params': [('l', t_any)]}
        yield 'element-order', {'classes': BASE + fork + [ka, kb], 'root': ('union', [('cls', 'Ka'), ('cls', 'Kb')])}
        yield 'element-order', {'classes': BASE + fork + [dict(ka, name='K')], 'root': ('cls', 'K')}
        # the docs ride on a class that the root does not use (only valid() of the root type is taken): wrap in a holder
        hold = {'name': 'Hd', 'params': [('u', ('union', [t_amb, t_u]))], 'docs': [('m', 'map', [(S1('u'), e)]) for e in extra]}
        yield 'element-order', {'classes': BASE + fork + [hold], 'root': ('cls', 'Hd')}


def shorthand_models():
    """classes that accept a scalar short form through a custom recogniser and a savorize (docs/recipes: 'short forms')"""
    B1 = lambda v: ('s', 'bool', v)   # noqa
    F1 = lambda v: ('s', 'float', v)  # noqa
    I1 = lambda v: ('s', 'int', v)    # noqa
    S1 = lambda v: ('s', 'str', v)    # noqa
    for t, good in (('bool', [B1('true'), B1('FALSE')]), ('float', [F1('1.5'), F1('1e3')]), ('int', [I1('7')]),
                    ('str', [S1('a'), S1('yes')]), (('union', ['bool', 'str']), [B1('True'), S1('on')])):
        k = {'name': 'K', 'params': [('v', t), ('w', 'str', 'dw')],
             'hooks': {'recognize': [('permissive',)], 'savorize': [('scalar_to_attr', 'v')]},
             'docs': good + [B1('false'), S1('true'), I1('1'), F1('.5')]}
        yield 'shorthand', {'classes': BASE + [k], 'root': ('dict', 'str', ('cls', 'K'))}
        yield 'shorthand', {'classes': BASE + [k], 'root': ('list', ('cls', 'K'))}


# ---------------------------------------------------------------- hierarchies (C03)

SHAPES = {'chain2': [None, 0], 'chain3': [None, 0, 1], 'fork2': [None, 0, 0], 'chainfork': [None, 0, 1, 1],
          'forkchain': [None, 0, 0, 1], 'fork3': [None, 0, 0, 0], 'chain4': [None, 0, 1, 2],
          'diamond': [None, 0, 0, (1, 2)],
          # five classes: a diamond with one more subclass on one side / below the join
          'diamondx': [None, 0, 0, (1, 2), 2], 'diamondy': [None, 0, 0, (1, 2), 1], 'diamondz': [None, 0, 0, (1, 2), 3]}
ADD = ['none', 'req', 'opt']


def hierarchy(shape, adds, abstract=None, unreg=None, abstract_kind='abc'):
    parents = SHAPES[shape]
    classes = []
    params_of = {}
    for i, p in enumerate(parents):
        name = 'C%d' % i
        if p is None:
            params = [('x', 'int')]
            bases = []
        else:
            ps = p if isinstance(p, tuple) else (p,)
            bases = ['C%d' % q for q in ps]
            params = []
            for q in ps:
                for pr in params_of[q]:
                    if pr not in params:
                        params.append(pr)
            a = adds[i - 1]
            if a == 'req':
                params = params + [('f%d' % i, 'int')]
            elif a == 'opt':
                params = params + [('f%d' % i, 'int', 0)]
            params = [pr for pr in params if len(pr) == 2] + [pr for pr in params if len(pr) == 3]
        params_of[i] = params
        classes.append({'name': name, 'bases': bases, 'params': params,
                        'abstract': abstract_kind if abstract == i else None, 'registered': unreg != i})
    return {'classes': classes, 'root': ('cls', 'C0')}


def hierarchy_models(max_classes=4):
    for sname, parents in SHAPES.items():
        n = len(parents)
        if n > max_classes:
            continue
        for adds in itertools.product(ADD, repeat=n - 1):
            for abstract in [None] + list(range(n)):
                for unreg in [None] + list(range(1, n)):
                    yield sname, hierarchy(sname, adds, abstract, unreg)


def scalar_union_models():
    """Unions whose members are all written as a string scalar (str, Path, an enum, string-like classes), in both
    orders: a string matches two members, which is an ambiguity whatever the order; and keyword-only parameters"""
    ws = {'name': 'Ws', 'kind': 'strsub'}
    members = ['str', 'path', ('cls', 'E'), ('cls', 'S'), ('cls', 'Ws')]
    for a, b_ in itertools.permutations(members, 2):
        # (a null / an int keeps every model supplied with a document it accepts)
        yield 'scalar-union', {'classes': BASE + [ws], 'root': ('opt', ('union', [a, b_]))}
        yield 'scalar-union', {'classes': BASE + [ws], 'root': ('union', [a, b_, 'int'])}
        yield 'scalar-union', {'classes': BASE + [ws, {'name': 'K', 'params': [('u', ('union', [a, 'int', b_])), ('l', ('list', ('union', [b_, 'int', a])), None)]}],
                               'root': ('cls', 'K')}
    for t in (('union', ['int', ('cls', 'E')]), ('union', ['float', 'path', 'int']), ('union', ['bool', ('cls', 'S')]), ('union', ['date', 'str']),
              ('union', ['none', ('cls', 'E'), 'int'])):
        yield 'scalar-union', {'classes': BASE, 'root': ('dict', 'str', t)}
    kwdocs = [('m', 'map', ((('s', 'str', 'x'), ('s', 'int', '1')), (('s', 'str', 'k'), v)))
              for v in (('s', 'int', '2'), ('s', 'str', 'a'), ('m', 'map', ((('s', 'str', 'p'), ('s', 'int', '1')),)))]
    k8 = {'name': 'K', 'params': [('x', 'int'), ('y', 'int', 0)], 'kwonly': [('k', 'int'), ('u', 'untyped')], 'docs': kwdocs}
    yield 'kwonly', {'classes': BASE + [k8], 'root': ('cls', 'K')}
    yield 'kwonly', {'classes': BASE + [dict(k8, extra=True)], 'root': ('list', ('cls', 'K'))}


def all_load_models(tier):
    """the C02 catalogue: auto-recognised models"""
    out = []
    for gen in (root_models(), one_param_models(), two_param_models(full=(tier == 'thorough')),
                nested_models(), seasoned_models(), shorthand_models(), element_order_models(), hook_sharing_models(),
                union_class_models(), scalar_union_models()):
        for fam, spec in gen:
            if spec is not None:
                out.append((fam, spec))
    return out
