"""Class-model DSL -> real, self-instrumenting Python classes (DESIGN.md 2.2).

A spec is plain JSON-able data (it is stored verbatim in replay files):

  {'classes': [ {name, kind, bases, params, extra, abstract, registered, members,
                 hooks: {savorize: [op..], sweeten: [op..], recognize: [op..]},
                 raises, attributes, defaults} ... ],
   'root': type-expression,
   'order': optional permutation of registration order}

type expressions: 'int' 'str' 'float' 'bool' 'none' 'date' 'path' 'any' 'buf' 'untyped',
  ['cls', N], ['list', T, variant?], ['dict', K, V, variant?], ['opt', T], ['union', [T..]]
params: [name, type] (required) or [name, type, default]

Generated classes log constructor calls and hook calls to LOG; nothing in /repo is
patched.
"""
import abc
import collections
import datetime
import enum
import pathlib
from typing import (Any, Dict, List, Mapping, MutableMapping, MutableSequence, Optional,
                    Sequence, Union)

import yaml
import yatiml

LOG = []
P = 'tag:yaml.org,2002:'
_KWONLY_DEFAULT = None


def T(t):
    """normalise a type expression (lists from JSON -> tuples)"""
    if isinstance(t, (list, tuple)):
        return tuple(T(x) for x in t)
    return t


class Built:
    def __init__(self):
        self.classes = collections.OrderedDict()
        self.registered = []
        self.root = None
        self.spec = None


SCALARS = {'int': int, 'str': str, 'float': float, 'bool': bool, 'none': type(None),
           'date': datetime.date, 'path': pathlib.Path, 'any': Any}
SEQV = {'List': List, 'Sequence': Sequence, 'MutableSequence': MutableSequence}
MAPV = {'Dict': Dict, 'Mapping': Mapping, 'MutableMapping': MutableMapping}


def type_of(b, t):
    t = T(t)
    if isinstance(t, str):
        if t == 'buf':
            return yatiml.bool_union_fix
        return SCALARS[t]
    k = t[0]
    if k == 'cls':
        return b.classes[t[1]]
    if k == 'list':
        return SEQV[t[2] if len(t) > 2 else 'List'][type_of(b, t[1])]
    if k == 'dict':
        return MAPV[t[3] if len(t) > 3 else 'Dict'][type_of(b, t[1]), type_of(b, t[2])]
    if k == 'opt':
        return Optional[type_of(b, t[1])]
    if k == 'union':
        return Union[tuple(type_of(b, x) for x in t[1])]
    raise ValueError(t)


def _eq(self, other):
    return type(self) is type(other) and self._kw == other._kw


def _r(v):
    try:
        return repr(v)
    except ValueError:       # an int beyond the int-to-str digit limit (yatiml formats objects into its debug log)
        return '<int of %d bits>' % v.bit_length() if isinstance(v, int) else '<unreprable>'


def _repr(self):
    return '%s(%s)' % (type(self).__name__, ', '.join('%s=%s' % (k, _r(v)) for k, v in self._kw.items()))


# ---------------------------------------------------------------- trees <-> nodes

def fulltag(t):
    if t.startswith('!!'):
        return P + t[2:]
    return t if t.startswith('!') or t.startswith('tag:') else P + t


def to_node(tree, flow=False):
    k, tag, v = tree
    tag = fulltag(tag)
    if k == 's':
        return yaml.ScalarNode(tag, v)
    if k == 'q':
        return yaml.SequenceNode(tag, [to_node(i, flow) for i in v], flow_style=flow)
    return yaml.MappingNode(tag, [(to_node(a, flow), to_node(b, flow)) for a, b in v], flow_style=flow)


class QuotedStr(str):
    """the text of a scalar that was written quoted (or as a block scalar) and carries an application tag: equal to the
    plain str everywhere, but the reference semantics can see that, with the tag ignored, it is a string"""


def view(n, _depth=0):
    if n is None:
        return None
    if _depth > 50:
        return ('deep',)
    if isinstance(n, yaml.ScalarNode):
        if n.style is not None and not n.tag.startswith(P):
            return ('s', n.tag, QuotedStr(n.value))
        return ('s', n.tag, n.value)
    if isinstance(n, yaml.SequenceNode):
        return ('q', n.tag, tuple(view(i, _depth + 1) for i in n.value))
    if isinstance(n, yaml.MappingNode):
        return ('m', n.tag, tuple((view(a, _depth + 1), view(b, _depth + 1)) for a, b in n.value))
    return ('?', repr(type(n)), None)


def norm_tree(t):
    """tree from JSON (lists) -> tuples, tags expanded"""
    k, tag, v = t
    if k == 's':
        return ('s', fulltag(tag), v)
    if k == 'q':
        return ('q', fulltag(tag), tuple(norm_tree(i) for i in v))
    return ('m', fulltag(tag), tuple((norm_tree(a), norm_tree(b)) for a, b in v))


# ---------------------------------------------------------------- hook ops

def raise_exc(name, msg):
    """'ValueError' raises ValueError(msg); 'ValueError!' raises ValueError() (no arguments, like a bare
    assert or `raise ValueError`); 'KeyError#' raises KeyError(5, 'x') (non-string arguments)"""
    if name.endswith('!'):
        raise EXC[name[:-1]]()
    if name.endswith('#'):
        raise EXC[name[:-1]](5, 'x')
    raise EXC[name](msg)


EXC = {'AssertionError': AssertionError, 'ValueError': ValueError, 'KeyError': KeyError, 'TypeError': TypeError,
       'SeasoningError': yatiml.SeasoningError, 'RecognitionError': yatiml.RecognitionError,
       'RuntimeError': RuntimeError, 'IndexError': IndexError, 'AttributeError': AttributeError,
       'StopIteration': StopIteration, 'OSError': OSError, 'ZeroDivisionError': ZeroDivisionError,
       'UserDefinedError': type('UserDefinedError', (Exception,), {}), 'LookupError': LookupError}


def apply_node_op(node, op):
    """apply a seasoning op to a yatiml.Node (the real helper API)"""
    k = op[0]
    if k == 'log':
        return
    if k == 'dashes_to_unders':
        node.dashes_to_unders_in_keys()
    elif k == 'unders_to_dashes':
        node.unders_to_dashes_in_keys()
    elif k == 'rename':
        node.rename_attribute(op[1], op[2])
    elif k == 'map_to_seq':
        node.map_attribute_to_seq(op[1], op[2], op[3])
    elif k == 'seq_to_map':
        node.seq_attribute_to_map(op[1], op[2], op[3], *op[4:5])
    elif k == 'map_to_index':
        node.map_attribute_to_index(op[1], op[2], op[3])
    elif k == 'index_to_map':
        node.index_attribute_to_map(op[1], op[2], op[3])
    elif k == 'remove_defaults':
        node.remove_attributes_with_default_values(op[1])
    elif k == 'scalar_to_attr':       # savorize: short form scalar -> mapping {attr: scalar}
        if node.is_scalar():
            y = node.yaml_node
            node.make_mapping()
            node.set_attribute(op[1], y)
    elif k == 'share_attr':           # savorize: attribute op[2] defaults to (the very node of) attribute op[1]
        if node.is_mapping() and node.has_attribute(op[1]) and not node.has_attribute(op[2]):
            node.set_attribute(op[2], node.get_attribute(op[1]).yaml_node)
    elif k == 'parse_pair':           # savorize of a parsed class: 'a b' -> {op1: 'a', op2: 'b'}, built with the helpers only
        if node.is_scalar(str):
            a, _, b_ = node.get_value().partition(' ')
            node.make_mapping()
            node.set_attribute(op[1], a)
            node.set_attribute(op[2], b_)
    elif k == 'attr_to_scalar':       # sweeten: inverse of the above (when it is the only attribute)
        if node.is_mapping() and len(node.yaml_node.value) == 1 and node.has_attribute(op[1]):
            node.yaml_node = node.get_attribute(op[1]).yaml_node
    elif k == 'set_attr_scalar':
        node.set_attribute(op[1], op[2])
    elif k == 'set_attr_node':
        node.set_attribute(op[1], to_node(norm_tree(op[2])))
    elif k == 'remove_attr':
        node.remove_attribute(op[1])
    elif k == 'set_value':
        node.set_value(op[1])
    elif k == 'make_mapping':
        node.make_mapping()
    elif k == 'retag':
        node.yaml_node.tag = fulltag(op[1])
    elif k == 'retag_attr':
        if node.is_mapping() and node.has_attribute(op[1]):
            node.get_attribute(op[1]).yaml_node.tag = fulltag(op[2])
    elif k == 'replace_node':
        node.yaml_node = to_node(norm_tree(op[1]))
    elif k == 'dup_key':
        if node.is_mapping() and node.yaml_node.value:
            node.yaml_node.value.append(node.yaml_node.value[0])
    elif k == 'get_attr':             # a savorize that reads an attribute (SeasoningError when absent)
        node.get_attribute(op[1])
    elif k == 'attr_get_value':       # a hook that looks at the VALUE of a scalar attribute, as the docs' recipes do
        if node.is_mapping() and node.has_attribute(op[1]):
            a = node.get_attribute(op[1])
            # "Use is_scalar() to check which type the node has": the untyped is_scalar() is True for every scalar
            if a.is_scalar():
                a.get_value()
    elif k == 'value_roundtrip':      # docs/examples/savorizing.py: read a scalar attribute, write it back converted
        if node.is_mapping() and node.has_attribute(op[1]):
            a = node.get_attribute(op[1])
            if any(a.is_scalar(t) for t in (str, int, float, bool, None)):
                node.set_attribute(op[1], a.get_value())
    elif k == 'scalar_get_value':     # parsed-class style: the node itself is a scalar
        if node.is_scalar():
            node.set_value(node.get_value())
    elif k == 'attr_has_type':
        # no mapping precondition is documented: "True iff the attribute exists and matches the type"
        node.has_attribute_type(op[1], {'int': int, 'str': str, 'float': float, 'bool': bool, 'list': list, 'dict': dict}[op[2]])
    elif k == 'stamp':
        # C10: leave a visible mark of this call on the mapping: the n-th stamp of its family (s_ / w_) gets the
        # value n; a second call of the same hook on the same node adds 100
        if node.is_mapping():
            name = op[1]
            if node.has_attribute(name):
                node.set_attribute(name, node.get_attribute(name).get_value() + 100)
            else:
                n = sum(1 for kn, _ in node.yaml_node.value if str(kn.value).startswith(name[:2]))
                node.set_attribute(name, n + 1)
    elif k == 'raise':
        raise_exc(op[1], 'boom from hook')
    else:
        raise ValueError(op)


def apply_unknown_op(unode, op, built):
    """apply a recognition op to a yatiml.UnknownNode"""
    k = op[0]
    if k in ('permissive', 'log'):
        return
    if k == 'require_mapping':
        unode.require_mapping()
    elif k == 'require_sequence':
        unode.require_sequence()
    elif k == 'require_scalar':
        unode.require_scalar(*[type_of(built, t) if t != 'none' else None for t in op[1]])
    elif k == 'require_attr':
        if len(op) > 2:
            unode.require_attribute(op[1], type_of(built, op[2]))
        else:
            unode.require_attribute(op[1])
    elif k == 'require_attr_value':
        unode.require_attribute_value(op[1], op[2])
    elif k == 'require_attr_value_not':
        unode.require_attribute_value_not(op[1], op[2])
    elif k == 'raise':
        raise_exc(op[1], 'boom from recognize')
    else:
        raise ValueError(op)


def _mk_hook(kind, ops, defining, built):
    def hook(cls, node):
        LOG.append((kind, defining, cls.__name__))
        for op in ops:
            if op[0] == 'only_mapping':
                # a well-behaved hook: the mapping helpers are documented for mapping nodes only
                if kind != 'recognize' and not node.is_mapping():
                    return
                continue
            if op[0] == 'remove_defaults':
                op = ('remove_defaults', cls)
            if kind == 'recognize':
                apply_unknown_op(node, op, built)
            else:
                apply_node_op(node, op)
    hook.__name__ = '_yatiml_' + kind
    hook.__qualname__ = defining + '._yatiml_' + kind
    return classmethod(hook)


# ---------------------------------------------------------------- build

def build(spec):
    b = Built()
    b.spec = spec
    for c in spec['classes']:
        name = c['name']
        kind = c.get('kind', 'plain')
        bases = tuple(b.classes[x] for x in c.get('bases', []))
        hooks = c.get('hooks') or {}
        ns = {}
        for hk in ('savorize', 'sweeten', 'recognize'):
            if hk in hooks:
                ns['_yatiml_' + hk] = _mk_hook(hk, [T(o) for o in hooks[hk]], name, b)
                ns['_ops_' + hk] = [T(o) for o in hooks[hk]]
        if kind == 'enum':
            if c.get('mixin') == 'str':        # class Name(str, enum.Enum): members carry string values
                cls = enum.Enum(name, {m: 'v' + m for m in c['members']}, type=str)
            elif c.get('mixin') == 'int':
                cls = enum.IntEnum(name, {m: i + 1 for i, m in enumerate(c['members'])})
            else:
                cls = enum.Enum(name, {m: i + 1 for i, m in enumerate(c['members'])})
            for k, v in ns.items():
                setattr(cls, k, v)
        elif kind == 'userstring':
            ns.update({'__init__': _mk_strinit(collections.UserString, c.get('raises'))})
            cls = type(name, bases or (collections.UserString,), ns)
        elif kind == 'strsub':
            if c.get('raises'):
                ns['__new__'] = _mk_strnew(c['raises'])
            cls = type(name, bases or (str,), ns)
        elif kind == 'ystring':
            def __init__(self, value: str, _r=c.get('raises')) -> None:
                LOG.append(('init', type(self).__name__, {'value': value}))
                if _r:
                    raise_exc(_r, 'boom from string-like ctor')
                self._v = value
            ns.update({'__init__': __init__, '__str__': lambda s: s._v, '__hash__': lambda s: hash(s._v),
                       '__eq__': lambda s, o: type(s) is type(o) and s._v == o._v,
                       '__repr__': lambda s: '%s(%r)' % (type(s).__name__, s._v)})
            cls = type(name, bases or (yatiml.String,), ns)
        else:
            params = [tuple(p) for p in c.get('params', [])]
            g = {'__T': {}, 'LOG': LOG, 'raise_exc': raise_exc}
            sig = ['self']
            body = ['    kw = {}']
            for i, p in enumerate(params):
                pname, ptype = p[0], T(p[1])
                ann = ''
                if ptype != 'untyped':
                    g['__T'][pname] = type_of(b, ptype)
                    if ptype == 'none' and c.get('none_literal'):
                        g['__T'][pname] = None      # annotated `-> None` style: the literal None (PEP 484: means NoneType)
                    ann = ': __T[%r]' % pname
                if len(p) > 2:
                    g['__D%d' % i] = p[2]
                    sig.append('%s%s = __D%d' % (pname, ann, i))
                else:
                    sig.append('%s%s' % (pname, ann))
                if c.get('props'):
                    # the attribute lives under another name and is offered through a property of the parameter's name
                    body.append('    kw[%r] = %s; self._stored_%s = %s' % (pname, pname, pname, pname))
                    ns[pname] = property(lambda self, _n='_stored_' + pname: getattr(self, _n))
                else:
                    body.append('    kw[%r] = %s; self.%s = %s' % (pname, pname, pname, pname))
            if c.get('extra'):
                g['OrderedDict'] = collections.OrderedDict
                anydef = any(len(p) > 2 for p in params)
                if c.get('extra_pos') is not None:
                    # _yatiml_extra declared among the other parameters (before the defaulted ones)
                    pos = 1 + c['extra_pos']
                    before_def = not any(len(p) > 2 for p in params[:c['extra_pos']])
                    sig.insert(pos, '_yatiml_extra: OrderedDict' + ('' if (before_def and c.get('extra') != 'opt') else ' = None'))
                else:
                    sig.append('_yatiml_extra: OrderedDict' + (' = None' if (c.get('extra') == 'opt' or anydef) else ''))
                body.append("    kw['_yatiml_extra'] = _yatiml_extra; self._yatiml_extra = "
                            "_yatiml_extra if _yatiml_extra is not None else OrderedDict()")
            if c.get('kwonly'):
                # keyword-only parameters (after a bare *): not constructor parameters in yatiml's sense (it reads
                # argspec.args); what __init__ received for them is logged only when it is not the default
                sig.append('*')
                g['__KWD'] = _KWONLY_DEFAULT
                for kp in c['kwonly']:
                    kname, ktype = kp[0], T(kp[1])
                    ann = ''
                    if ktype != 'untyped':
                        g['__T'][kname] = type_of(b, ktype)
                        ann = ': __T[%r]' % kname
                    sig.append('%s%s = __KWD' % (kname, ann))
                    body.append('    if %s is not __KWD: kw[%r] = %s' % (kname, kname, kname))
            body.append("    self._kw = kw; LOG.append(('init', type(self).__name__, dict(kw)))")
            if c.get('raises'):
                body.append('    raise_exc(%r, "boom from ctor")' % c['raises'])
            src = 'def __init__(%s) -> None:\n%s\n' % (', '.join(sig), '\n'.join(body))
            exec(src, g)
            ns['__init__'] = g['__init__']
            if c.get('slots'):
                # no instance __dict__: attributes are slot descriptors on the class
                inherited = set()
                for base in bases:
                    for k in base.__mro__:
                        inherited.update(getattr(k, '__slots__', ()))
                ns['__slots__'] = tuple(n for n in [p[0] for p in params] + ['_kw', '_yatiml_extra'] if n not in inherited)
            ns['__eq__'] = _eq
            ns['__repr__'] = _repr
            ns['__hash__'] = None
            ns['_src'] = src
            if c.get('attributes'):
                def _yatiml_attributes(self, _names=list(c['attributes'])):
                    return collections.OrderedDict((n, getattr(self, n)) for n in _names)
                ns['_yatiml_attributes'] = _yatiml_attributes
            if c.get('defaults') is not None:
                ns['_yatiml_defaults'] = dict(c['defaults'])
            if c.get('abstract') == 'abc':
                bases = (bases or ()) + (abc.ABC,)
            elif c.get('abstract') == 'method':
                ns['_abstract_thing'] = abc.abstractmethod(lambda self: None)
                cls = abc.ABCMeta(name, bases or (object,), ns)
                b.classes[name] = cls
                if c.get('registered', True):
                    b.registered.append(cls)
                continue
            cls = type(name, bases or (object,), ns)
        if c.get('pyname'):
            # the Python-level name differs from the key used in the spec (two classes with the same __name__)
            cls.__name__ = c['pyname']
            cls.__qualname__ = c['pyname']
        b.classes[name] = cls
        if c.get('registered', True):
            b.registered.append(cls)
    if spec.get('order'):
        b.registered = [b.registered[i] for i in spec['order']]
    b.root = type_of(b, spec['root'])
    return b


def _mk_strinit(base, raises):
    def __init__(self, value, _r=raises):
        LOG.append(('init', type(self).__name__, {'value': value}))
        if _r:
            raise_exc(_r, 'boom from string-like ctor')
        base.__init__(self, value)
    return __init__


def _mk_strnew(raises):
    def __new__(cls, value):
        raise_exc(raises, 'boom from string-like ctor')
    return __new__


def source_of(spec):
    """human-readable rendering of a spec for replay files"""
    lines = []
    for c in spec['classes']:
        kind = c.get('kind', 'plain')
        head = 'class %s(%s)' % (c['name'], ', '.join(c.get('bases', [])) or
                                 {'enum': 'enum.Enum', 'userstring': 'UserString', 'strsub': 'str',
                                  'ystring': 'yatiml.String'}.get(kind, ''))
        flags = [k for k in ('abstract', 'extra', 'raises') if c.get(k)]
        if not c.get('registered', True):
            flags.append('UNREGISTERED')
        lines.append('%s  %s' % (head, ' '.join('%s=%s' % (f, c.get(f, '')) for f in flags)))
        if kind == 'enum':
            lines.append('    members: %s' % c['members'])
        for p in c.get('params', []):
            lines.append('    param %s: %s%s' % (p[0], p[1], ' = %r' % (p[2],) if len(p) > 2 else ''))
        for hk, ops in (c.get('hooks') or {}).items():
            lines.append('    _yatiml_%s: %s' % (hk, ops))
    lines.append('root: %s' % (spec['root'],))
    return lines
