"""Regenerates /verif/MANIFEST.json from the table below: python3 -m mc.manifest"""
import json
import os

HERE = os.path.dirname(os.path.dirname(os.path.abspath(__file__)))

# property -> (technique, level text, level note, design ref)
CHECKS = {
    'C09': (
        'exhaustive product-automaton reachability over the resolver table (all string lengths) + exhaustive '
        'enumeration of all strings up to a length bound on the real resolver and load function',
        'Every reachable state of the product of the DFAs of all implicit-resolver regexes (read from a live '
        'Loader instance), the YAML 1.2 reference DFAs and the pristine PyYAML table is visited, so the typing of '
        'plain scalars is decided for strings of every length; all strings up to length 5/6 over the number and '
        'word alphabets are additionally resolved and loaded end to end, which also validates the regex->DFA '
        'translation against re.match.',
        'Trusts: the sre-parse-tree -> NFA -> DFA translation (cross-checked with re.match on every enumerated '
        'string), the YAML 1.2 core-schema productions written as reference regexes, PyYAML for int/null/'
        'timestamp typing. A sign on .nan is accepted either way.',
        'DESIGN.md 3 C09'),
    'C01': (
        'exhaustive enumeration of (class model x document) pairs on the real load function with a conformance oracle',
        'Every model of the catalogues (all root types, 1- and 2-parameter classes over the type alphabet, nested, '
        'string-like, seasoned, hierarchies, permissive recognisers, 20 node-rewriting savorize functions) is combined '
        'with every document of D(T) (valid trees, every single-point mutation including every tag of the tag alphabet '
        'at every node, every tree up to 3/4 nodes, the empty documents); every value that is returned is checked '
        'all the way down against the declared type, including the kwargs each constructor received.',
        'Trusts: the generated self-instrumenting classes record what __init__ received; the conformance predicate '
        'in mc/refsem.py. Values and models outside the alphabets are not covered.',
        'DESIGN.md 3 C01'),
    'C02': (
        'exhaustive enumeration of (class model x document) pairs; every verdict/value of an executable reference '
        'model of the documented pipeline is replayed against the real load function',
        'For every auto-recognised model of the catalogue and every document of D(T) the reference semantics '
        '(mc/refsem.py, written from the documentation, no yatiml imports) decides accept/reject and the value; the '
        'real load function must accept iff the reference accepts and build a structurally equal value (classes, '
        'constructor kwargs, defaults, extras as ordered mapping, dict order).',
        'Trusts: the hand-written reference semantics and its calibration points K1-K8; PyYAML scalar constructors '
        'on both sides; the renderer (each text is composed back and compared with the intended tree).',
        'DESIGN.md 3 C02'),
    'C08': (
        'exhaustive enumeration of all texts up to a length bound over YAML token alphabets and of all nasty '
        'single-point mutations of catalogue documents, observing the exception type leaving the real load function',
        'Every string of length <= 4/5/6 over a 14-symbol YAML alphabet and <= 2/3 over 28 indicators on six load '
        'functions, every nasty mutation (explicit core tags with wrong content, PyYAML edge spellings, merge, '
        'duplicate, null and complex keys, cycles) of the catalogue documents, and models whose constructors and hooks '
        'raise: only RecognitionError or yaml.YAMLError may leave load().',
        'Trusts: nothing beyond the Python exception type observed; nesting is bounded (<= 6).',
        'DESIGN.md 3 C08'),
    'C03': (
        'exhaustive enumeration of all inheritance DAGs up to 3/4 classes x documents x tags x ALL permutations of '
        'registration order and Union members on the real load function, against a reference rule',
        'Every rooted inheritance DAG with <= 3 (quick) / 4 (thorough) classes, every choice of added parameter, abstract '
        'class and unregistered class, discriminating recognisers and enum/scalar unions; one document per subset of '
        'parameter names x value kinds x every class tag and an unknown tag; for every permutation of registration '
        'order and Union member order the outcome must be identical, equal to the reference most-derived/tag rule, and '
        'no abstract or unregistered class may be instantiated (constructor log).',
        'Trusts: the reference rule in mc/refsem.py (calibrations K3/K4 for tags); constructor logging of generated '
        'classes. Hierarchies with more than 4 classes are not covered.',
        'DESIGN.md 3 C03'),
    'C15': (
        'exhaustive enumeration of all attribute contents up to length 3/4 over 14 item shapes x transforms x options on '
        'the real Node helpers, against a model written from the docstrings, plus inverse laws',
        'For each of the four structural transforms, each value-attribute and strictness choice and every attribute '
        'content (missing, each scalar kind, every sequence/mapping of <= 3/4 items over 14 item shapes) the real helper '
        'is applied to a fresh node; inside the documented domain the result must be the documented shape and the '
        'inverse transform must restore the input up to the position of the key attribute, outside it the node must be '
        'unchanged; duplicates raise SeasoningError only in strict mode; the key-renaming helpers are checked on all '
        'key tuples over 9 key spellings.',
        'Trusts: the docstring model in mc/props/C15.py. Items lacking the key attribute or already holding it in the '
        'map->seq direction are outside the documented domain (only the exception type is checked there).',
        'DESIGN.md 3 C15'),
    'C14': (
        'explicit-state breadth-first search over all accessor call sequences up to depth 4/5 (histories replayed on the '
        'real Node, compared step by step with an OrderedDict model) + exhaustive enumeration of scalar spellings, '
        '(value, node) and (default, value) pairs',
        'Every sequence of has/get/set/remove/rename/has_attribute_type calls with arguments from small alphabets up to '
        'depth 4 (quick) / 5 (thorough) from 9 initial mappings is explored breadth-first with canonical-state '
        'de-duplication; every transition replays its whole history on a fresh real yatiml.Node and must agree with '
        'the ordered-dictionary model in result and state. get_value() is compared with what the load function '
        'constructs for every scalar spelling up to length 3/4 over the number and word alphabets plus PyYAML\'s '
        'integer/float forms; set_value/get_value/is_scalar for 20 values x 10 node kinds; '
        'remove_attributes_with_default_values for 15 defaults x 22 value nodes x {signature, _yatiml_defaults}.',
        'Trusts: canonicalisation to (key, tag, value) lists (no accessor reads anything else); the OrderedDict model. '
        'Cross-kind numeric equalities and nan defaults are accepted either way.',
        'DESIGN.md 3 C14'),
    'C04': (
        'exhaustive enumeration of every tag of the tag alphabet at every node (pairs of nodes in thorough) of valid and '
        'mutated documents on the real load function, observing the constructor log, the value and a canary module',
        'For 12 models with Any / untyped / _yatiml_extra positions (all classes registered, one never reachable from '
        'the document type) every tag (class names, unknown, non-specific, 11 core tags, 5 !!python/* tags) is injected '
        'at every node of every base document; the constructor log (also of loads that fail) may only contain '
        'admissible classes with type-checked arguments and must equal the reference\'s calls for accepted documents, '
        'values below Any positions must be plain data equal to the load without the tag, and the canary package must '
        'never be imported.',
        'Trusts: constructor logging of the generated classes; the admissibility computation and type-directed position '
        'walk in mc/props/C04.py; a load that fails on a !!python/* tag is accepted as fail-safe.',
        'DESIGN.md 3 C04'),
    'C16': (
        'exhaustive enumeration of helper x arguments x node on the real UnknownNode (obtained through the real '
        'recognition pipeline), against a predicate written from the docstrings / the reference recognition rules',
        'Every require_* helper with every argument of the alphabets (2 attribute names, 11 scalar values, 21 types of '
        'the type language with registered classes) is called on every tree with <= 3 nodes and on attribute mappings '
        'holding 32 value shapes; accept/reject must equal the documented condition, no other exception may be raised '
        'and the node must be unchanged.',
        'Trusts: the docstring predicate in mc/props/C16.py and mc/refsem.py for typed attributes; mappings with a '
        'duplicated attribute name are outside the stated domain.',
        'DESIGN.md 3 C16'),
    'C05': (
        'exhaustive enumeration of all strings up to a length bound over two adversarial alphabets at 13 positions and of '
        'a structured value catalogue; each value is dumped and re-loaded with the real functions',
        'Every string of length <= 2/3 over a 20-character YAML-syntax alphabet and <= 3/4 over a 13-character number/'
        'boolean look-alike alphabet, plus 170 fixed strings, is placed at 13 positions (top level, list item, dict key and '
        'value, class attribute, extra attribute, Union member, Any, untyped, three string-like kinds); 61 structured '
        'families cover floats incl. non-finite, ints, dates/datetimes, paths, enums with bool-like names, string-likes as '
        'values and keys, nested classes, extras, hierarchies, default-value sweetening for every (default, value) pair, '
        'four sweeten/savorize inverse pairs and every way of referencing one sub-object twice; load(dumps(v)) must be '
        'structurally equal to v (nan-aware, class-exact, order-sensitive).',
        'Trusts: structural equality of the generated classes (recorded constructor kwargs). Cross-kind numeric pairs '
        '(1 vs 1.0) are skipped for default sweetening. Strings outside the alphabets/list are not covered.',
        'DESIGN.md 3 C05'),
    'C06': (
        'exhaustive enumeration of the same value catalogue through both dump paths; each text is re-parsed with plain '
        'PyYAML and compared with a reference projection; object graph snapshots before/after',
        'For dumps_function and for the deprecated Dumper/add_to_dumper path: every catalogue value (strings at 7 '
        'positions, 67 structured families incl. _yatiml_attributes, inherited sweeteners, OrderedDicts) is dumped; the '
        'text must be one well-formed document whose parse events carry no tag, yaml.safe_load of it must equal the '
        'reference projection (declaration order, extras, enum names, str() of string-likes and paths, own sweeteners), '
        'a deep snapshot of the object graph must be unchanged and a second dump identical.',
        'Trusts: the projection and the plain-data models of the declarative sweeteners in mc/values.py.',
        'DESIGN.md 3 C06'),
    'C07': (
        'explicit-state BFS of the JSON emitter (every event sequence replayed on the real Dumper.emit against a reference '
        'pushdown transducer) + exhaustive enumeration of all plain-data trees up to 5/6 nodes x indent x ensure_ascii '
        'and of all short strings over a JSON-hostile alphabet',
        'The emitter is driven with YAML events directly: all well-formed event sequences (nesting <= 4, <= 7/9 events) '
        'are explored breadth-first with de-duplication on the stack of container states, each transition compared with '
        'a 30-line reference transducer (compact text exactly, indented text modulo white space) and every complete '
        'document validated. End to end, every plain-data tree with <= 4/6 nodes (9 leaf kinds) under all 10 indents x 2 '
        'ensure_ascii settings (<= 5 nodes under two indents in quick), every string <= 2/3 over 14 hostile characters '
        'as value and key, and the tree-shaped class values: strict RFC 8259 recogniser, JSON projection, ASCII and '
        'white-space rules, and re-load for printable-BMP values.',
        'Trusts: the strict JSON recogniser in mc/props/C07.py (cross-checked with json.loads), the reference transducer, '
        'the projection. Dates are excluded from the re-load clause.',
        'DESIGN.md 3 C07'),
    'C12': (
        'exhaustive enumeration of (case x source kind) and (case x option x sink kind) on real files, paths and streams',
        'Every (model, document) pair of a catalogue subset plus 20 special texts (CRLF/CR line ends, BOM, non-ASCII, '
        'block scalars, syntax errors) is loaded from a str, a Path, an open text file, an open binary file, StringIO '
        'and BytesIO: equal values or the same error (type, message without source name/snippet, line/column). Every '
        'catalogue value is dumped as YAML and as JSON under 6 option combinations to a file name, a Path, an open text '
        'file and StringIO: the bytes written must decode to exactly the text of the dumps twin.',
        'Trusts: PYTHONUTF8=1 for the default file encoding; error normalisation removes only the source name and '
        'PyYAML\'s snippet.',
        'DESIGN.md 3 C12'),
    'C13': (
        'exhaustive enumeration of (class model x document x meaning-preserving transformation) triples; the two '
        'outcomes of every pair are compared on the real load function (metamorphic, no reference model)',
        'For every (model, document) pair of the auto-recognition catalogue, bool-unions and hierarchies: every '
        'permutation of the keys of every class mapping (<= 4 keys, rotations above), six re-serialisations (flow, '
        'single-/double-quoted, canonical, JSON-like, narrow block; each composed back and compared with the node '
        'tree), unrelated classes registered before and after, every List/Sequence/MutableSequence and '
        'Dict/Mapping/MutableMapping assignment (all 3^n for n <= 3 positions) and bool_union_fix added to every '
        'Union containing bool; the outcome must be an equal value or failure in both.',
        'Trusts: the type-directed walk that decides which mappings are class mappings; name-based structural '
        'equality across two builds of a model. Extras are compared unordered under key permutation only.',
        'DESIGN.md 3 C13'),
    'C18': (
        'exhaustive enumeration of (class model x document x sharing of equal sub-trees) and of every cycle; the aliased '
        'and the expanded document are both loaded with the real load function and the outcomes compared',
        'For every (model, valid or invalid document) pair of the catalogue plus models in which one node sits at two '
        'differently typed positions, seasoned classes with non-idempotent savorize and hierarchies: every pair (thorough: '
        'triple) of structurally equal sub-trees at disjoint positions, keys included, and the maximal sharing, is serialised '
        'with anchors and aliases (composed back, node identity verified) and must give the outcome of the expanded document; '
        'every collection node placed at each of its own descendant positions must be rejected with an error that is not '
        'RecursionError.',
        'Trusts: PyYAML\'s serializer to emit the anchors (verified by composing back); structural equality of generated classes.',
        'DESIGN.md 3 C18'),
    'C17': (
        'exhaustive enumeration of (class model x valid document x corruption site x corruption operator); the positions and '
        'key names in each RecognitionError of the real load function are compared with the marks of the corrupted node',
        'Strong claim: for every hierarchy-free model of the catalogue and every valid document (block style) every '
        'single-point corruption - a scalar of every other kind at each value scalar, an unknown enum member, each key '
        'misspelt, each key dropped, a key added to each mapping - that is rejected must cite the line of the corrupted '
        'node, of its key or of the start of the enclosing mapping, and name the unknown/missing key of a class mapping. '
        'Weak claim: every RecognitionError seen for any model (hierarchies, unions, discriminating and permissive '
        'recognisers, node-rewriting savorize, raising constructors and hooks) on any document of D(T), empty documents '
        'included, cites at least one position and only positions inside the document.',
        'Trusts: the "line N, column M" pattern; marks of PyYAML\'s composer for the corrupted text. Hooks that install '
        'hand-made nodes without marks are outside the claim.',
        'DESIGN.md 3 C17'),
    'C10': (
        'exhaustive enumeration of (hierarchy shape x hook-defining subsets x mix-in placement x raising class x position x '
        'concrete class); hook calls of the real load and dump functions are observed through stamps left on each node and '
        'a call log, and compared with the rule computed from the model',
        'Chains of 1-3 classes, forks with 2 and 3 children and a chain ending in a fork; _yatiml_savorize and '
        '_yatiml_recognize on every pair of subsets of the classes, _yatiml_sweeten on every subset (dumps and dumps_json); an '
        'unregistered mix-in carrying all three hooks attached to each class before/after its registered base; a savorize '
        'raising SeasoningError at each class; positions top level, list item, dict value, class attribute, Union member; '
        'userstring / yatiml.String / str-subclass chains and enums. Per loaded (dumped) object: exactly the own-body hooks of '
        'the registered ancestors and of the class, each once, bases first, cls = defining class, savorize after the class\'s '
        'recogniser and before construction, nothing from the mix-in; SeasoningError surfaces as RecognitionError.',
        'Trusts: the generated hooks (stamps through the public Node API, call log). Ancestors behind an unregistered '
        'intermediate class are not exercised.',
        'DESIGN.md 3 C10'),
    'C11': (
        'explicit-state BFS over operation histories (each executed in a process forked from a pristine parent, states merged '
        'on a generic fingerprint of all yaml/yatiml state) + preemption-bounded exhaustive DFS over thread schedules of the '
        'real code under a deterministic settrace/semaphore scheduler',
        'Histories: 48 operations (create load / dumps / dumps_json functions over four class sets, two of them with different '
        'classes of the same name; call them on six documents incl. !A/!B-tagged, invalid and unparseable ones; dump values of '
        'own and foreign classes), all histories up to depth 3/5 modulo state merging; every call must give the result of its '
        'minimal history, 24 yaml.safe_load/safe_dump/yaml.load probes must answer as in the pristine process, the user\'s class '
        'dictionaries must be unchanged. Threads: 12 two-thread programs (x both thread orders) on shared and separate '
        'functions; every schedule with <= 1 preemption at each call of yatiml and of six PyYAML modules, and at every line of '
        'yatiml (quick: 6 programs; thorough: all), thorough also <= 2 preemptions at yatiml calls plus lines of functions in '
        'which the shared-write audit saw shared state change; each thread\'s result must equal the sequential run.',
        'Trusts: CPython switching threads only between bytecodes (GIL build); the fingerprint only for merging states. '
        'Switches inside PyYAML\'s scanner/parser/emitter are not explored. Message texts are not compared.',
        'DESIGN.md 3 C11'),
}

# what the mutation and bug-hunting campaigns added to each check after the texts above were written
ADDED = {
    'C01': ' Also: merge keys and both spellings of a key among the mutations, scalar short forms, underscore-prefixed '
           'parameters, user classes named Path. A savorize that uses one node for two attributes of different types (hook-sharing family, ten type pairs), parameters annotated with the literal None.',
    'C02': ' Also: merge keys, both spellings of a key, collections with an ambiguous and an unrecognisable item in either '
           'order, scalar short forms, extras declared mid-signature, mix-in enums; the reference models PyYAML\'s merge '
           'flattening below Any. Keys with some underscores dashed, extras named self / _yatiml_extra, the hook-sharing family. Wave 6: Unions whose members are all written as a string scalar (str, Path, enum, string-like) in both orders; keyword-only parameters (not parameters). Third hunter round: two partly dashed spellings of one key (reference is order-independent).',
    'C03': ' Also: a slice of the four-class shapes in the quick tier, three five-class diamond shapes under all 120 orders, '
           'explicit class tags on enum / string-like scalars. Core tags that contradict the node (!!int on a class mapping), Unions of a class with Dict / Any, classes written as scalars by the parsed-class recipe in a Union.',
    'C04': ' Also: underscore-prefixed parameters. Every injected tree is loaded in three spellings (as emitted, all scalars double-quoted, tagged scalars plain) against a style-aware oracle. Wave 6: underscored optional parameters next to _yatiml_extra with each key also written with dashes; classes with keyword-only parameters. Wave 7: empty collections below Any positions.',
    'C05': ' Also: a grammar of number-like spellings with every leading digit, inverse pairs with non-str keys, paths with '
           '~ and .., empty collections vs None defaults, defaulted extras declared first, shared objects with node-replacing '
           'and restructuring sweeteners, one datetime with a sub-minute UTC offset (open known finding). Collections shared with an unsweetened attribute, the savorize-direction helpers used as sweeteners with one item under two keys, extras named self / _yatiml_extra, ints beyond the 4300-digit limit. Wave 6: enum member names that are YAML 1.2 floats / ints / dates; a sweetener that rewrites a string attribute through set_attribute(). Third hunter round: classes with __slots__ and property-backed attributes; extras named _yatiml_extra / self holding None under default-value sweetening.',
    'C06': ' Also: extras declared mid-signature, mix-in enums, inherited _yatiml_attributes, objects ending in a leaf that '
           'recurs, non-idempotent inherited sweeteners, sweeteners writing every scalar kind (floats incl. inf/nan) through '
           'the Node helpers, shared objects with node-replacing and restructuring sweeteners. The same shared-collection and reverse-direction families, sweeteners writing int nodes in hex / octal / binary spelling.',
    'C07': ' Also: the string families through dump_json to a stream, per-occurrence check of the ensure_ascii=False clause, '
           'keys around PyYAML\'s 1024-character implicit-key limit (open known finding). Immutable leaves occurring twice (tree-shapedness decided per value), the reload clause for all printable characters incl. beyond the BMP, ints beyond the digit limit (open known finding), int spellings written by sweeteners.',
    'C08': ' Also: 30 models whose hooks read attribute values (require_attribute_value, get_value, has_attribute_type, '
           'remove_attributes_with_default_values) or restructure them behind a permissive recogniser, each on every nasty '
           'scalar and shape; helpers without a documented mapping precondition on scalar and sequence nodes; parsed-class '
           'hooks; long number spellings (base-60 overflow, beyond the 4300-digit limit); a lexical unit with every '
           'boundary escape sequence and %YAML/%TAG directive that no rendered document contains. Eleven annotations outside the type language (PEP 604, forward references, strings, built-in generics ...) on three roots. Wave 6: constructors and string-like classes raising each of 12 exception classes with a message, without arguments and with non-string arguments.',
    'C09': ' Also: character categories (\\d \\s \\w) are translated exactly, so non-ASCII digits are covered; a sign on '
           '.nan is not accepted.',
    'C10': ' Also: same-named unregistered mix-ins, the deprecated Dumper route with classes registered in two steps, the '
           'sweeten rule for string-like classes and enums on dumping. Diamond inheritance over registered classes (two shapes; sibling order free).',
    'C11': ' Also: eight load functions (several over one class set with different result types), a mid-dump JSON failure, '
           'class sets with node-replacing and default-value sweeteners, distinct objects per thread in the dump programs, '
           'deep snapshot of the user\'s classes. Wave 7: cross-function histories over one class registered with and without its hooked base (load, dump, JSON; both orders); every loaded value is scribbled on by the harness and every load function is called again afterwards.',
    'C12': ' Also: UTF-16 / UTF-8-BOM binary sources, byte-level documents (invalid UTF-8, CR/CRLF with errors) through '
           'BytesIO, binary file and Path, every fixed string through every dump variant and sink, pre-filled target files, '
           'a sub-process under a non-UTF-8 locale. A text stream over undecodable bytes at three positions (position independence of the error). Wave 6: sinks that already hold text (StringIO / text file written to before, append mode), text streams in latin-1, cp1251, gb18030, UTF-16.',
    'C13': ' Also: single-class models, both spellings of a key, merge keys; dicts are compared unordered under key '
           'permutation. Wave 6: one character beyond the BMP spelt raw / as a JSON surrogate pair / as \\U escape at every kind of string position, also 4 and 8 kB into the text; tags naming the additionally registered classes at every node. Third hunter round: two partly dashed spellings of one key in both orders (mutation twomixed). Wave 7: literal (quick) and folded (thorough) block-scalar renderings; quick tier uses five of the eight renderings.',
    'C14': ' Also: initial nodes composed from text (marks, a value shared by two keys, kind/tag mismatches), overrides of '
           'non-None defaults incl. by None, a defaulted _yatiml_extra before the defaulted parameters, empty collections '
           'against defaults of the same and the other kind, ints beyond the str() digit limit through set_value and '
           'set_attribute. Collections carrying a scalar tag in the default-value matrix. Wave 6: every sequence of <= 3/4 remove_attributes_with_default_values() calls over three classes sharing one __init__ with every combination of own _yatiml_defaults tables (100 families), last call on all 16 value pairs. Wave 7: second key profile {a_b, a-b, c} with the two key-respelling helpers as operations of the accessor BFS.',
    'C15': ' Also: the full form (item already has its key attribute) is inside the domain of map_attribute_to_index. Every in-domain transform also on node graphs with shared objects (the collection, its first item, one item under two keys). Wave 6: collections of length <= 3 (quick) / 4 (thorough); every in-domain result is the start state of every second transform (depth-2 chains), compared with the transform applied to a freshly built node of the documented shape. Third hunter round: a call naming attribute N behaves on a node with a non-string key spelt N as with that key spelt differently; after a conversion on shared nodes the keys of the result are renamed and the other references compared again.',
    'C16': ' Also: near-miss keys (dashed / underscored / case), nodes whose kind and core tag disagree. Non-string keys spelt like the attribute names; mappings with the attribute written twice (exception type and purity only). Wave 6: typed require_attribute over the whole D(T) of 32 types (valid trees, all single-point mutations with every tag, all trees <= 3/4 nodes); classes with a recogniser of their own as attribute types and as tags on attribute values.',
    'C17': ' Also: near-miss enum members, numeric and duplicated added keys, Union-with-collection and Union-of-classes '
           'positions, classes with eight and more parameters, four-class hierarchies in the quick tier. Positions named "generated node" count as outside the document; parsed-class hooks built with make_mapping / set_attribute; an alias unit (the wrong node is an alias of a node that is valid where anchored). Wave 6: every corruption of the strong claim repeated inside an enclosing object with an anchor and its alias elsewhere (scalar / collection, before / after); classes that occur in annotations without being registered (weak claim). Quick tier runs two of the four alias contexts.',
    'C18': ' Also: nested sharing, every aliased and cyclic document additionally read as a one-document stream (Loader.'
           'get_node), cyclic documents with 4-60 shared levels under a time limit. Wave 6: the number of aliases (1..500 / 4097; one anchor n times, n anchors, an alias after n plain items; ten item types); sharing inside a shared collection at differently typed places.',
}

NOT_BUILT = {}


def main():
    with open(os.path.join(HERE, 'properties.jsonl')) as f:
        props = [json.loads(l) for l in f if l.strip()]
    checks = []
    na = []
    for p in props:
        pid = p['id']
        if pid in CHECKS:
            tech, text, note, ref = CHECKS[pid]
            checks.append({
                'property_id': pid,
                'quick_cmd': './check %s --tier quick' % pid,
                'thorough_cmd': './check %s --tier thorough' % pid,
                'evidence_file': 'evidence/%s.json' % pid,
                'replay_cmd_template': './check %s --replay {path}' % pid,
                'engine': 'mc',
                'level_claimed': {'category': 'model_checking', 'text': text + ADDED.get(pid, ''), 'design_ref': ref},
                'level_note': note,
                'technique': tech,
            })
        else:
            na.append({'property_id': pid, 'reason': NOT_BUILT.get(
                pid, 'check not built yet in this revision of /verif (planned: bounded exhaustive exploration, see DESIGN.md 3)')})
    m = {
        'version': 1,
        'setup_cmd': './check selftest',
        'hooks': {
            'guard': 'YATIML_VERIF',
            'enable': 'no source hooks are needed: ./check puts /repo on PYTHONPATH and observes through generated '
                      'classes, sys.settrace and forked processes; YATIML_VERIF=1 is exported for completeness',
            'baseline_off_cmd': 'cd /repo && /venv/bin/python -m pytest -ra -q -p no:cacheprovider --timeout=900 '
                                '--continue-on-collection-errors',
            'source_commits': [],
            'add_only': True,
        },
        'engines': [{
            'name': 'mc',
            'path': 'mc/',
            'serves_properties': [c['property_id'] for c in checks],
            'kind_free_text': 'hand-written explicit-state / bounded exhaustive explorer in Python driving the real '
                              'yatiml code (choice-tree enumeration, BFS with canonical-state dedup, product-automaton '
                              'reachability, preemption-bounded thread scheduler, fork-from-pristine histories)',
        }],
        'checks': checks,
        'notes': 'All checks are bounded exhaustive explorations (model checking family); see DESIGN.md. '
                 'Exit 0 = held on everything explored, 1 = VIOLATION line(s), 2 = harness error / vacuous run.',
        'not_applicable': na,
    }
    with open(os.path.join(HERE, 'MANIFEST.json'), 'w') as f:
        json.dump(m, f, indent=1)
        f.write('\n')
    print('MANIFEST.json: %d checks, %d not claimed' % (len(checks), len(na)))


if __name__ == '__main__':
    main()
