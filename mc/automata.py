"""regex (sre parse tree) -> NFA -> DFA with re.match() semantics; product exploration.

Supported constructs: literals, classes, '.', branches, groups, bounded and unbounded
repeats, '^' (only traversable at position 0) and '$' (end, or before one final
newline; nothing may be consumed after it).  Anything else raises Unsupported and the
caller falls back to bounded enumeration (it never raises an alarm because of it).

match() is a *prefix* match: the DFA accepts w iff pattern.match(w) is not None.
"""
import re
import re._constants as sc
import re._parser as sp
from collections import deque

MAXCP = 0x110000


class Unsupported(Exception):
    pass


class NFA:
    def __init__(self):
        self.eps = []      # eps[s] = list of (kind, target), kind in {'e', '^', '$'}
        self.tr = []       # tr[s] = list of (charset, target)

    def new(self):
        self.eps.append([])
        self.tr.append([])
        return len(self.eps) - 1


_CATS = {}


def _category_ranges(cat):
    """code point ranges of a character category (\\d \\s \\w and their negations) of a str pattern without re.ASCII,
    computed from the interpreter's own predicates over all code points (once)"""
    if cat not in _CATS:
        pred = {sc.CATEGORY_DIGIT: str.isdecimal, sc.CATEGORY_NOT_DIGIT: lambda c: not c.isdecimal(),
                sc.CATEGORY_SPACE: str.isspace, sc.CATEGORY_NOT_SPACE: lambda c: not c.isspace(),
                sc.CATEGORY_WORD: lambda c: c.isalnum() or c == '_',
                sc.CATEGORY_NOT_WORD: lambda c: not (c.isalnum() or c == '_')}.get(cat)
        if pred is None:
            raise Unsupported('category %r' % (cat,))
        rs = []
        start = None
        for cp in range(MAXCP):
            if pred(chr(cp)):
                if start is None:
                    start = cp
            elif start is not None:
                rs.append((start, cp - 1))
                start = None
        if start is not None:
            rs.append((start, MAXCP - 1))
        _CATS[cat] = rs
    return _CATS[cat]


def _charset(items):
    neg = False
    rs = []
    for op, av in items:
        if op is sc.NEGATE:
            neg = True
        elif op is sc.LITERAL:
            rs.append((av, av))
        elif op is sc.RANGE:
            rs.append(tuple(av))
        elif op is sc.CATEGORY:
            rs.extend(_category_ranges(av))
        else:
            raise Unsupported('class item %r' % (op,))
    return ('neg' if neg else 'pos', tuple(sorted(rs)))


def _build(n, tree, s, flags):
    for op, av in tree:
        if op is sc.LITERAL:
            t = n.new()
            n.tr[s].append((('pos', ((av, av),)), t))
            s = t
        elif op is sc.NOT_LITERAL:
            t = n.new()
            n.tr[s].append((('neg', ((av, av),)), t))
            s = t
        elif op is sc.ANY:
            t = n.new()
            if flags & re.S:
                n.tr[s].append((('neg', ()), t))
            else:
                n.tr[s].append((('neg', ((10, 10),)), t))
            s = t
        elif op is sc.IN:
            t = n.new()
            n.tr[s].append((_charset(av), t))
            s = t
        elif op is sc.BRANCH:
            t = n.new()
            for alt in av[1]:
                a = n.new()
                n.eps[s].append(('e', a))
                e = _build(n, alt, a, flags)
                n.eps[e].append(('e', t))
            s = t
        elif op is sc.SUBPATTERN:
            if av[1] or av[2]:
                raise Unsupported('inline flags')
            s = _build(n, av[3], s, flags)
        elif op in (sc.MAX_REPEAT, sc.MIN_REPEAT):
            lo, hi, sub = av
            for _ in range(lo):
                s = _build(n, sub, s, flags)
            if hi is sc.MAXREPEAT:
                a = n.new()
                n.eps[s].append(('e', a))
                e = _build(n, sub, a, flags)
                n.eps[e].append(('e', a))
                t = n.new()
                n.eps[a].append(('e', t))
                s = t
            else:
                t = n.new()
                n.eps[s].append(('e', t))
                for _ in range(hi - lo):
                    s = _build(n, sub, s, flags)
                    n.eps[s].append(('e', t))
                s = t
        elif op is sc.AT:
            t = n.new()
            if av is sc.AT_BEGINNING or av is sc.AT_BEGINNING_STRING:
                n.eps[s].append(('^', t))
            elif av is sc.AT_END:
                n.eps[s].append(('$', t))
            elif av is sc.AT_END_STRING:
                n.eps[s].append(('Z', t))
            else:
                raise Unsupported('assertion %r' % (av,))
            s = t
        else:
            raise Unsupported('construct %r' % (op,))
    return s


def compile_nfa(rx):
    if rx.flags & (re.I | re.M | re.A | re.L):
        raise Unsupported('flags %r' % rx.flags)
    n = NFA()
    n.start = n.new()
    n.final = _build(n, sp.parse(rx.pattern, rx.flags), n.start, rx.flags)
    return n


def alphabet(nfas, extra_chars=''):
    """Partition of the code points induced by every literal/range of the NFAs."""
    cuts = {0, MAXCP, 10, 11}
    for n in nfas:
        for lst in n.tr:
            for (kind, rs), _ in lst:
                for a, b in rs:
                    cuts.add(a)
                    cuts.add(b + 1)
    for ch in extra_chars:
        cuts.add(ord(ch))
        cuts.add(ord(ch) + 1)
    cuts = sorted(cuts)
    return [(cuts[i], cuts[i + 1] - 1) for i in range(len(cuts) - 1)]


def _has(cs, c):
    kind, rs = cs
    inside = any(a <= c <= b for a, b in rs)
    return inside if kind == 'pos' else not inside


class DFA:
    """tr[state][symbol index] -> state; acc[state] -> bool"""

    def __init__(self, tr, acc, syms):
        self.tr, self.acc, self.syms = tr, acc, syms

    def sym_of(self, ch):
        c = ord(ch)
        lo, hi = 0, len(self.syms) - 1
        while lo < hi:
            mid = (lo + hi) // 2
            if self.syms[mid][1] < c:
                lo = mid + 1
            else:
                hi = mid
        return lo

    def accepts(self, s):
        st = 0
        for ch in s:
            st = self.tr[st][self.sym_of(ch)]
        return self.acc[st]


def to_dfa(n, syms):
    """Subset construction.

    DFA state = (live mode-0 NFA states, A, E, N):
      A  a match was already completed unconditionally (sticky: prefix match)
      E  a match completes here provided the rest of the input is '' or '\\n' ('$')
      N  the final newline allowed by '$' has just been read: accept iff input ends now
      Z  a match completes here provided the input ends exactly here ('\\Z')
    """
    def close(states, at_start):
        live = set()
        a = e = z = False
        stack = [(q, 0) for q in states]
        seen = set(stack)
        while stack:
            q, m = stack.pop()
            if q == n.final:
                if m == 0:
                    a = True
                elif m == 1:
                    e = True
                else:
                    z = True
            if m == 0:
                live.add(q)
            elif n.tr[q]:
                raise Unsupported('pattern consumes input after $')
            for kind, t in n.eps[q]:
                if kind == '^' and not at_start:
                    continue
                m2 = max(m, 1) if kind == '$' else (2 if kind == 'Z' else m)
                if (t, m2) not in seen:
                    seen.add((t, m2))
                    stack.append((t, m2))
        return frozenset(live), a, e, z

    live0, a0, e0, z0 = close([n.start], True)
    s0 = (live0, a0, e0, False, z0)
    idx = {s0: 0}
    rows = {}
    q = deque([s0])
    while q:
        S = q.popleft()
        live, A, E, N, Z = S
        row = []
        for (lo, hi) in syms:
            c = lo
            nxt = set()
            for st in live:
                for cs, t in n.tr[st]:
                    if _has(cs, c):
                        nxt.add(t)
            l2, a2, e2, z2 = close(nxt, False)
            T = (l2, A or a2, e2, bool(E and c == 10 and lo == hi), z2)
            if T not in idx:
                idx[T] = len(idx)
                q.append(T)
            row.append(idx[T])
        rows[idx[S]] = row
    states = sorted(idx.items(), key=lambda kv: kv[1])
    tr = [rows[i] for _, i in states]
    acc = [bool(S[1] or S[2] or S[3] or S[4]) for S, _ in states]
    return DFA(tr, acc, syms)


def product_reach(dfas, syms):
    """Exhaustive exploration of the product of several DFAs over a common alphabet.

    Returns dict product-state -> (shortest witness string as list of symbol indices),
    and the number of transitions explored.
    """
    s0 = tuple(0 for _ in dfas)
    wit = {s0: ()}
    q = deque([s0])
    ntrans = 0
    while q:
        S = q.popleft()
        for j in range(len(syms)):
            ntrans += 1
            T = tuple(d.tr[s][j] for d, s in zip(dfas, S))
            if T not in wit:
                wit[T] = wit[S] + (j,)
                q.append(T)
    return wit, ntrans


def rep_char(sym, prefer='0159.eE+-_:xobtrufalsTRUEFALSinIN~<=! \n'):
    lo, hi = sym
    for ch in prefer:
        if lo <= ord(ch) <= hi:
            return ch
    for c in (lo, hi, 0x41, 0x7a):
        if lo <= c <= hi and not (0xD800 <= c <= 0xDFFF):
            return chr(c)
    return chr(lo) if not (0xD800 <= lo <= 0xDFFF) else chr(hi)
