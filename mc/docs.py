"""Document universe: node trees, mutation operators, tag injection, renderers (DESIGN.md 2.3).

A tree is ('s', tag, text) | ('q', tag, (items..)) | ('m', tag, ((key, value)..)) with
short core tags ('str', 'int', ..) or full/application tags ('!K', 'tag:...').
"""
import itertools

import yaml

from mc.models import P, T, fulltag, to_node, view  # noqa: F401


def S(tag, value):
    return ('s', tag, value)


def Q(items, tag='seq'):
    return ('q', tag, tuple(items))


def M(pairs, tag='map'):
    return ('m', tag, tuple(pairs))


SCALARS = {
    'str': [S('str', 'a'), S('str', '1'), S('str', ''), S('str', 'yes')],
    'int': [S('int', '1'), S('int', '0x1F')],
    'float': [S('float', '1.5'), S('float', '1e3'), S('float', '.inf')],
    'bool': [S('bool', 'true'), S('bool', 'False')],
    'none': [S('null', 'null'), S('null', '')],
    'date': [S('timestamp', '2001-01-01'), S('timestamp', '2001-01-01 10:00:00')],
    'path': [S('str', 'a/b')],
    'buf': [S('bool', 'true')],
}
ONE_PER_KIND = [S('str', 'a'), S('int', '1'), S('float', '1.5'), S('bool', 'true'), S('null', 'null'),
                S('timestamp', '2001-01-01')]
ANYVALS = [S('str', 'a'), S('int', '1'), Q([S('int', '1')]), M([(S('str', 'k'), S('str', 'v'))])]


def classes_of(spec):
    return {c['name']: c for c in spec['classes']}


def valid(spec, t, k=2, depth=0, lite=False):
    """every tree denoting a value of t built from the representative alphabets, width <= k"""
    t = T(t)
    cl = classes_of(spec)
    if isinstance(t, str):
        if t in ('any', 'untyped'):
            return list(ANYVALS[:2] if lite else ANYVALS)
        r = SCALARS[t]
        return r[:1] if lite else list(r)
    kind = t[0]
    if kind == 'opt':
        return valid(spec, t[1], k, depth, lite) + [S('null', 'null')]
    if kind == 'union':
        out = []
        for x in t[1]:
            for v in valid(spec, x, k, depth, lite):
                if v not in out:
                    out.append(v)
        return out
    if kind == 'list':
        sub = valid(spec, t[1], k, depth + 1, lite or depth >= 1)
        out = [Q([])]
        for n in range(1, k + 1):
            for tup in itertools.product(sub if n == 1 else sub[:2], repeat=n):
                out.append(Q(tup))
        return out
    if kind == 'dict':
        keys = valid(spec, t[1], k, depth + 1, True)[:1] + [S('str', 'k2')]
        sub = valid(spec, t[2], k, depth + 1, lite or depth >= 1)
        out = [M([])]
        for v in sub:
            out.append(M([(keys[0], v)]))
        if k >= 2:
            for v1, v2 in itertools.product(sub[:2], repeat=2):
                out.append(M([(keys[0], v1), (keys[1], v2)]))
        return out
    if kind == 'cls':
        c = cl[t[1]]
        ck = c.get('kind', 'plain')
        out = []
        if ck == 'enum':
            out = [S('str', m) for m in c['members'][:2]]
        elif ck in ('userstring', 'strsub', 'ystring'):
            out = [S('str', 'a'), S('str', 'x y')]
        else:
            params = [tuple(p) for p in c.get('params', [])]
            req = [p for p in params if len(p) < 3]
            opt = [p for p in params if len(p) >= 3]
            for r in range(len(opt) + 1):
                for osub in itertools.combinations(opt, r):
                    present = [p for p in params if p in req or p in osub]
                    choices = [valid(spec, p[1], k, depth + 1, lite or depth >= 1)[: (3 if depth == 0 else 1)]
                               for p in present]
                    for vals in itertools.product(*choices):
                        out.append(M([(S('str', p[0]), v) for p, v in zip(present, vals)]))
            if c.get('extra') and out:
                out.append(M(list(out[0][2]) + [(S('str', 'zz'), S('int', '7'))]))
                out.append(M(list(out[0][2]) + [(S('str', 'zy'), M([(S('str', 'k'), Q([S('str', 'v')]))])),
                                                (S('str', 'zz'), S('str', 'w'))]))
            for d in c.get('docs', []):
                out.append(norm(d))
        for d in spec['classes']:
            if t[1] in d.get('bases', []) and depth < 3:
                for v in valid(spec, ('cls', d['name']), k, depth, True):
                    if v not in out:
                        out.append(v)
        return out
    raise ValueError(t)


def norm(t):
    """tree given with lists (JSON) -> tuples"""
    k, tag, v = t
    if k == 's':
        return ('s', tag, v)
    if k == 'q':
        return ('q', tag, tuple(norm(i) for i in v))
    return ('m', tag, tuple((norm(a), norm(b)) for a, b in v))


def positions(tree, path=()):
    yield path, tree
    if tree[0] == 'q':
        for i, it in enumerate(tree[2]):
            yield from positions(it, path + (i,))
    elif tree[0] == 'm':
        for i, (kk, vv) in enumerate(tree[2]):
            yield from positions(kk, path + ((i, 0),))
            yield from positions(vv, path + ((i, 1),))


def replace(tree, path, new):
    if not path:
        return new
    h, rest = path[0], path[1:]
    if tree[0] == 'q':
        items = list(tree[2])
        items[h] = replace(items[h], rest, new)
        return ('q', tree[1], tuple(items))
    i, side = h
    pairs = list(tree[2])
    kv = list(pairs[i])
    kv[side] = replace(kv[side], rest, new)
    pairs[i] = tuple(kv)
    return ('m', tree[1], tuple(pairs))


def get_at(tree, path):
    for h in path:
        if tree[0] == 'q':
            tree = tree[2][h]
        else:
            tree = tree[2][h[0]][h[1]]
    return tree


def is_key_path(path):
    return bool(path) and isinstance(path[-1], tuple) and path[-1][1] == 0


def mutations(tree, tags=(), enum_nonmember=None):
    """every single-point mutation of the tree: (operator name, site path, mutated tree)"""
    out = []
    for path, node in positions(tree):
        iskey = is_key_path(path)
        if node[0] == 's':
            for alt in ONE_PER_KIND:
                if alt[1] != node[1]:
                    out.append(('kind:' + alt[1], path, replace(tree, path, alt)))
            if not iskey:
                out.append(('toseq', path, replace(tree, path, Q([node]))))
                out.append(('tomap', path, replace(tree, path, M([(S('str', 'k'), node)]))))
                if node[1] == 'str' and enum_nonmember:
                    out.append(('nonmember', path, replace(tree, path, S('str', enum_nonmember))))
            if iskey and node[1] == 'str':
                out.append(('misspell', path, replace(tree, path, S('str', node[2] + 'x'))))
                if '_' in node[2]:
                    out.append(('dash', path, replace(tree, path, S('str', node[2].replace('_', '-')))))
                    if node[2].count('_') > 1:
                        # only some of the underscores written as dashes ("identical after dashes have been replaced")
                        out.append(('mixdash', path, replace(tree, path, S('str', node[2].replace('_', '-', 1)))))
                        out.append(('mixdash', path, replace(tree, path, S('str', node[2][::-1].replace('_', '-', 1)[::-1]))))
                if '-' in node[2]:
                    out.append(('under', path, replace(tree, path, S('str', node[2].replace('-', '_')))))
        else:
            out.append(('toscalar', path, replace(tree, path, S('str', 'a'))))
            if node[0] == 'q':
                out.append(('seq2map', path, replace(tree, path, M([(S('str', 'k'), it) for it in node[2][:1]]))))
            if node[0] == 'm':
                out.append(('map2seq', path, replace(tree, path, Q([v for _, v in node[2]]))))
                for i in range(len(node[2])):
                    out.append(('dropkey', path, replace(tree, path, ('m', node[1], node[2][:i] + node[2][i + 1:]))))
                    out.append(('dupkey', path, replace(tree, path, ('m', node[1], node[2] + (node[2][i],)))))
                    kk, vv = node[2][i]
                    for alt in ONE_PER_KIND:
                        if alt != vv:
                            # the same key again with a value of another kind (last one wins in PyYAML)
                            out.append(('dupkind', path, replace(tree, path, ('m', node[1], node[2] + ((kk, alt),)))))
                            out.append(('dupkind', path, replace(tree, path, ('m', node[1], ((kk, alt),) + node[2]))))
                    if kk[0] == 's' and '_' in kk[2]:
                        # BOTH spellings of the key, the dashed one with a value of another kind, before and after
                        dk2 = S(kk[1], kk[2].replace('_', '-'))
                        for alt in ONE_PER_KIND[:3] + [vv]:
                            out.append(('bothspell', path, replace(tree, path, ('m', node[1], node[2][:i] + ((dk2, alt),) + node[2][i:]))))
                            out.append(('bothspell', path, replace(tree, path, ('m', node[1], node[2][:i + 1] + ((dk2, alt),) + node[2][i + 1:]))))
                        if kk[2].count('_') >= 2:
                            # TWO partly dashed spellings of the key instead of the key itself, one with the value and one with
                            # a value of another kind, in both orders (neither is the exact name)
                            m1 = S(kk[1], kk[2].replace('_', '-', 1))
                            m2 = S(kk[1], kk[2][::-1].replace('_', '-', 1)[::-1])
                            for alt in ONE_PER_KIND[:3]:
                                if alt != vv:
                                    for pair in (((m1, vv), (m2, alt)), ((m2, alt), (m1, vv)), ((m1, alt), (m2, vv)), ((m2, vv), (m1, alt))):
                                        out.append(('twomixed', path, replace(tree, path, ('m', node[1], node[2][:i] + pair + node[2][i + 1:]))))
                        # dashed spelling of the key together with a value of another kind
                        dk = S(kk[1], kk[2].replace('_', '-'))
                        for alt in ONE_PER_KIND + [Q([])]:
                            if alt != vv:
                                out.append(('dashkind', path, replace(tree, path, (
                                    'm', node[1], node[2][:i] + ((dk, alt),) + node[2][i + 1:]))))
                # YAML merge keys: PyYAML flattens '<<' inside construct_mapping, i.e. after recognition and
                # type-directed processing have seen the mapping
                for i in range(len(node[2])):
                    kk, vv = node[2][i]
                    rest = node[2][:i] + node[2][i + 1:]
                    out.append(('merge', path, replace(tree, path, ('m', node[1], rest + ((S('merge', '<<'), M([(kk, vv)])),)))))
                    for alt in ONE_PER_KIND:
                        if alt != vv:
                            out.append(('mergekind', path, replace(tree, path, (
                                'm', node[1], rest + ((S('merge', '<<'), M([(kk, alt)])),)))))
                            out.append(('mergekind', path, replace(tree, path, (
                                'm', node[1], node[2] + ((S('merge', '<<'), M([(S('str', 'qm'), alt)])),)))))
                out.append(('addkey', path, replace(tree, path, ('m', node[1], node[2] + ((S('str', 'qq'), S('int', '1')),)))))
                out.append(('complexkey', path, replace(tree, path, ('m', node[1], node[2] + ((Q([S('str', 'a')]), S('int', '1')),)))))
                out.append(('intkey', path, replace(tree, path, ('m', node[1], node[2] + ((S('int', '3'), S('int', '1')),)))))
                out.append(('reservedkey', path, replace(tree, path, ('m', node[1], node[2] + (
                    (S('str', '_yatiml_extra'), M([(S('str', 'w'), S('int', '1'))])),)))))
                out.append(('reservedkey', path, replace(tree, path, ('m', node[1], node[2] + ((S('str', 'self'), S('int', '1')),)))))
        for tg in tags:
            if node[0] == 's' and tg in ('!!map', '!!seq', '!!set', '!!omap'):
                continue
            if fulltag(tg) == fulltag(node[1]):
                continue
            out.append(('tag:' + tg, path, replace(tree, path, (node[0], tg, node[2]))))
    return out


def tiny(n, keys=('a', 'x')):
    """every tree with <= n nodes over the generic alphabet (keys are not counted as nodes)"""
    leaves = ONE_PER_KIND + [Q([]), M([])]
    memo = {}

    def exact(m):
        if m in memo:
            return memo[m]
        if m == 1:
            r = list(leaves)
        else:
            r = []
            for parts in _compositions(m - 1):
                if len(parts) > len(keys) + 1:
                    continue
                for kids in itertools.product(*[exact(p) for p in parts]):
                    r.append(Q(kids))
                    if len(kids) <= len(keys):
                        for ks in itertools.permutations(keys, len(kids)):
                            if list(ks) == sorted(ks) or len(kids) == 1 or m <= 3:
                                r.append(M([(S('str', kk), v) for kk, v in zip(ks, kids)]))
        memo[m] = r
        return r
    out = []
    for m in range(1, n + 1):
        out += exact(m)
    return out


def _compositions(n):
    if n == 0:
        yield ()
        return
    for first in range(1, n + 1):
        for rest in _compositions(n - first):
            yield (first,) + rest


CORE_TAGS = ['!!str', '!!int', '!!map', '!!seq', '!!set', '!!omap', '!!binary', '!!float', '!!bool', '!!null',
             '!!timestamp']
DANGEROUS_TAGS = ['tag:yaml.org,2002:python/object:canary.Boom',
                  'tag:yaml.org,2002:python/object/apply:canary.fire',
                  'tag:yaml.org,2002:python/object/new:canary.Boom',
                  'tag:yaml.org,2002:python/name:canary.x',
                  'tag:yaml.org,2002:python/module:canary']


def tag_alphabet(class_names, small=False):
    tags = ['!' + n for n in class_names] + ['!Unknown', '!']
    if small:
        return tags + ['!!map', '!!str', DANGEROUS_TAGS[0], DANGEROUS_TAGS[1]]
    return tags + CORE_TAGS + DANGEROUS_TAGS


# ---------------------------------------------------------------- rendering

class Renderer:
    """PyYAML's serializer/emitter with the implicit-resolver table of the loader under test.

    Every rendering is composed back with the loader's own resolver and compared with the
    intended tree; a mismatch is a harness problem (counted), never a finding.
    """

    def __init__(self, loader_cls):
        inst = loader_cls('')
        table = inst.yaml_implicit_resolvers

        class RD(yaml.SafeDumper):
            pass
        RD.yaml_implicit_resolvers = {k: list(v) for k, v in table.items()}
        self.RD = RD
        self.loader_cls = loader_cls

        # composing is done by plain PyYAML with the same resolver table, not by the loader under test: the
        # harness must see the node graph the text denotes (aliases as shared nodes) whatever yatiml does to it
        class PL(yaml.SafeLoader):
            pass
        PL.yaml_implicit_resolvers = {k: list(v) for k, v in table.items()}
        self.PL = PL

    def serialize(self, node, **kw):
        return yaml.serialize(node, Dumper=self.RD, **kw)

    def render(self, tree, style='block'):
        node = to_node(tree, flow=(style in ('flow', 'json')))
        kw = {}
        if style == 'canonical':
            kw['canonical'] = True
        elif style == 'dq':
            _setstyle(node, '"')
        elif style == 'sq':
            _setstyle(node, "'")
        elif style == 'literal':
            _setstyle(node, '|')
        elif style == 'folded':
            _setstyle(node, '>')
        elif style == 'json':
            _setstyle(node, '"', only_str=True)
            kw['width'] = 100000
        elif style == 'narrow':
            kw['width'] = 10
            kw['indent'] = 4
        return self.serialize(node, **kw)

    def compose(self, text):
        ld = self.PL(text)
        try:
            return yaml.composer.Composer.get_single_node(ld)
        finally:
            ld.dispose()

    def checked(self, tree, style='block'):
        """text whose composition equals the intended tree, or None (render mismatch)"""
        try:
            text = self.render(tree, style)
            back = view(self.compose(text))
        except yaml.YAMLError:
            return None, None
        if back != view(to_node(tree)):
            return None, None
        return text, back


def _setstyle(node, st, only_str=False):
    if isinstance(node, yaml.ScalarNode):
        if not only_str or node.tag == P + 'str':
            node.style = st
    elif isinstance(node, yaml.SequenceNode):
        for c in node.value:
            _setstyle(c, st, only_str)
    else:
        for k, v in node.value:
            _setstyle(k, st, only_str)
            _setstyle(v, st, only_str)
