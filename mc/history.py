"""Fork-from-pristine execution and a generic shared-state fingerprint (DESIGN.md C11).

The fingerprint covers all module-level and class-level state reachable from the yaml* and
yatiml* modules plus any extra root objects (live load/dump functions, user classes).  It is
used for de-duplication of explored states and for the shared-write audit, never as an
oracle on its own.
"""
import hashlib
import logging
import os
import pickle
import re
import sys
import traceback
import types


def _fp(obj, seen, depth, out, memo=None):
    if depth > 14:
        out.append('deep')
        return
    if isinstance(obj, (int, float, str, bytes, bool, type(None))):
        out.append(repr(obj))
        return
    i = id(obj)
    if i in seen:
        out.append('cyc')
        return
    seen.add(i)
    try:
        if isinstance(obj, dict):
            parts = []
            for k, v in list(obj.items()):
                o = []
                _fp(k, seen, depth + 1, o, memo)
                o.append(':')
                _fp(v, seen, depth + 1, o, memo)
                parts.append(''.join(o))
            parts.sort()
            out.append('{' + ','.join(parts) + '}')
        elif isinstance(obj, (list, tuple)):
            out.append('[')
            for v in obj:
                _fp(v, seen, depth + 1, out, memo)
                out.append(',')
            out.append(']')
        elif isinstance(obj, (set, frozenset)):
            parts = []
            for v in obj:
                o = []
                _fp(v, seen, depth + 1, o, memo)
                parts.append(''.join(o))
            parts.sort()
            out.append('s(' + ','.join(parts) + ')')
        elif isinstance(obj, re.Pattern):
            out.append('re:%s:%d' % (obj.pattern, obj.flags))
        elif isinstance(obj, logging.Logger) or isinstance(obj, logging.Manager):
            out.append('logger')
        elif isinstance(obj, (types.FunctionType, types.BuiltinFunctionType, types.MethodType, staticmethod, classmethod,
                              property, types.MethodDescriptorType, types.WrapperDescriptorType, types.GetSetDescriptorType,
                              types.MemberDescriptorType)):
            out.append('fn:' + getattr(obj, '__qualname__', str(type(obj))))
            if isinstance(obj, types.FunctionType):
                if obj.__defaults__:
                    _fp(obj.__defaults__, seen, depth + 1, out, memo)
                if obj.__closure__:
                    for c in obj.__closure__:
                        try:
                            _fp(c.cell_contents, seen, depth + 1, out, memo)
                        except ValueError:
                            out.append('emptycell')
        elif isinstance(obj, types.ModuleType):
            out.append('mod:' + obj.__name__)
        elif isinstance(obj, type):
            mod = obj.__module__ or ''
            if not (mod.startswith(('yaml', 'yatiml')) or getattr(obj, '_fp_open', False) or mod.startswith('mc.')):
                out.append('cls:' + mod + '.' + obj.__qualname__)
            elif memo is not None and i in memo:
                out.append('cls:' + obj.__qualname__ + '#%d' % memo[i])      # expanded earlier in this fingerprint
            else:
                if memo is not None:
                    memo[i] = len(memo)
                out.append('cls:' + obj.__qualname__ + '(')
                for b in obj.__bases__:
                    _fp(b, seen, depth + 1, out, memo)
                out.append(')')
                _fp({k: v for k, v in vars(obj).items()
                     if k not in ('__dict__', '__weakref__', '__doc__', '__module__', '__qualname__',
                                  '__annotations__', '__firstlineno__', '__static_attributes__',
                                  '__abstractmethods__', '_abc_impl', '__parameters__', '__orig_bases__')},
                    seen, depth + 1, out, memo)
        else:
            tn = type(obj).__qualname__
            mro_names = [c.__name__ for c in type(obj).__mro__]
            if 'Reader' in mro_names and 'Scanner' in mro_names or 'Emitter' in mro_names and 'Serializer' in mro_names:
                # a per-call Loader/Dumper instance that something shared still points to: opaque leaf
                out.append('instance:' + tn)
            else:
                d = getattr(obj, '__dict__', None)
                out.append('obj:' + tn)
                if isinstance(d, dict):
                    _fp(d, seen, depth + 1, out, memo)
                elif hasattr(type(obj), '__slots__'):
                    for s in type(obj).__slots__:
                        if hasattr(obj, s):
                            out.append(s + '=')
                            _fp(getattr(obj, s), seen, depth + 1, out, memo)
    finally:
        seen.discard(i)


def fingerprint(roots=()):
    """sha1 over yaml*/yatiml* module state + the given root objects"""
    out = []
    memo = {}
    for name in sorted(sys.modules):
        if name == 'yaml' or name.startswith('yaml.') or name == 'yatiml' or name.startswith('yatiml.'):
            m = sys.modules[name]
            if m is None:
                continue
            out.append('\n#' + name)
            _fp({k: v for k, v in vars(m).items() if not (k.startswith('__') and k.endswith('__'))}, set(), 0, out, memo)
    for r in roots:
        out.append('\n#root')
        _fp(r, set(), 0, out, memo)
    return hashlib.sha1(''.join(out).encode('utf-8', 'backslashreplace')).hexdigest()


def fingerprint_text(roots=()):
    """the un-hashed fingerprint (for explaining a difference)"""
    out = []
    for name in sorted(sys.modules):
        if name == 'yaml' or name.startswith('yaml.') or name == 'yatiml' or name.startswith('yatiml.'):
            m = sys.modules[name]
            if m is None:
                continue
            out.append('\n#' + name + ' ')
            _fp({k: v for k, v in vars(m).items() if not (k.startswith('__') and k.endswith('__'))}, set(), 0, out)
    for r in roots:
        out.append('\n#root ')
        _fp(r, set(), 0, out)
    return ''.join(out)


def in_child(fn, *args, timeout=120):
    """run fn(*args) in a process forked from this one; return its (picklable) result.

    The child never returns into the caller's stack: it _exits.  A child that dies or hangs
    yields ('child-error', description).
    """
    r, w = os.pipe()
    pid = os.fork()
    if pid == 0:
        try:
            os.close(r)
            try:
                res = ('ok', fn(*args))
            except BaseException as e:     # noqa
                res = ('child-exc', '%s: %s\n%s' % (type(e).__name__, e, traceback.format_exc()))
            data = pickle.dumps(res)
            with os.fdopen(w, 'wb') as f:
                f.write(data)
        finally:
            os._exit(0)
    os.close(w)
    chunks = []
    with os.fdopen(r, 'rb') as f:
        while True:
            b = f.read(1 << 16)
            if not b:
                break
            chunks.append(b)
    _, status = os.waitpid(pid, 0)
    data = b''.join(chunks)
    if not data:
        return ('child-error', 'child exited with status %d and no result' % status)
    try:
        return pickle.loads(data)
    except Exception as e:     # noqa
        return ('child-error', 'unpicklable result: %s' % e)
