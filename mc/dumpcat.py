"""Catalogue of (class model, values) for the dumping properties (C05, C06, C07, C12).

A *position* places a payload (string / float / ...) somewhere in a value of a model:
top level, list item, dict key, dict value, class attribute, extra attribute, Union member,
Any position, string-like class.  unit descriptors are small and picklable; the values are
rebuilt inside the worker.
"""
import collections
import datetime
import itertools
import pathlib

from mc import models, values
from mc.models import T

# member names are written by their own representer, not as Python strings: names that are scalars of another type in
# YAML 1.2 and / or 1.1 (floats with an exponent but no sign or no fraction, ints, a date) belong here too
E_MEMBERS = ['red', 'true', 'False', 'yes', 'null', 'n', 'a_b', '1e5', '.5e3', '1.5e3', '-2E2', '0x1F', '1_000', '2001-01-01', '.inf',
             '~', '1:30']
BASE = [
    {'name': 'E', 'kind': 'enum', 'members': E_MEMBERS},
    {'name': 'S', 'kind': 'userstring'},
    {'name': 'Sy', 'kind': 'ystring'},
    {'name': 'Ss', 'kind': 'strsub'},
    {'name': 'In', 'params': [('p', 'int'), ('q', 'str', 'dq')]},
]
ALLSCALAR = ('union', ['int', 'float', 'bool', 'none', 'str'])

# position name -> (root type, extra classes, builder(b, payload) -> value)
STRING_POSITIONS = collections.OrderedDict([
    ('top', ('str', [], lambda b, s: s)),
    ('list-item', (('list', 'str'), [], lambda b, s: [s, 'b', s])),
    ('dict-key', (('dict', 'str', 'int'), [], lambda b, s: collections.OrderedDict([(s, 1), ('zz', 2)]))),
    ('dict-value', (('dict', 'str', 'str'), [], lambda b, s: {'k': s})),
    ('class-attr', (('cls', 'K'), [{'name': 'K', 'params': [('s', 'str'), ('n', 'int', 0)]}],
                    lambda b, s: b.classes['K'](s))),
    ('extra-attr', (('cls', 'K'), [{'name': 'K', 'params': [('x', 'int')], 'extra': True}],
                    lambda b, s: b.classes['K'](1, collections.OrderedDict([('e', s), (s if s not in ('x', 'e', 'self', '_yatiml_extra') else 'e2', 2)])))),
    ('union-member', (ALLSCALAR, [], lambda b, s: s)),
    ('union-in-list', (('list', ALLSCALAR), [], lambda b, s: [1, s, 1.5, None, True])),
    ('any', ('any', [], lambda b, s: {'k': [s]})),
    ('untyped-attr', (('cls', 'K'), [{'name': 'K', 'params': [('u', 'untyped')]}], lambda b, s: b.classes['K'](s))),
    ('userstring', (('cls', 'S'), [], lambda b, s: b.classes['S'](s))),
    # a sweetener that reads a string attribute and writes it back through Node.set_attribute(): the scalar node is then
    # made by the helper, not by the dumper's string representer
    ('sweeten-rewrites-attr', (('cls', 'K'), [{'name': 'K', 'params': [('s', 'str'), ('n', 'int', 0)],
                                               'hooks': {'sweeten': [('value_roundtrip', 's')]}}], lambda b, s: b.classes['K'](s))),
    ('ystring-key', (('dict', ('cls', 'Sy'), 'int'), [], lambda b, s: {b.classes['Sy'](s): 1})),
    ('strsub-in-class', (('cls', 'K'), [{'name': 'K', 'params': [('w', ('cls', 'Ss')), ('l', ('list', ('cls', 'S')), None)]}],
                         lambda b, s: b.classes['K'](b.classes['Ss'](s), [b.classes['S'](s)]))),
])


def string_spec(pos):
    root, extra, mk = STRING_POSITIONS[pos]
    return {'classes': BASE + extra, 'root': root}


def fixed_strings():
    out = []
    for s in values.FIXED_STRINGS + ['\x00', '\x1f', 'a\x00b']:
        if s not in out:
            out.append(s)
    return out


# ---------------------------------------------------------------- structured value families

def _K(params, **kw):
    d = {'name': 'K', 'params': params}
    d.update(kw)
    return d


def scalar_family():
    """(name, spec, maker(b) -> list of values)"""
    fam = []
    fam.append(('floats', {'classes': BASE, 'root': 'float'}, lambda b: list(values.FLOATS)))
    fam.append(('floats-list', {'classes': BASE, 'root': ('list', 'float')}, lambda b: [[f, 1.5] for f in values.FLOATS]))
    fam.append(('floats-union', {'classes': BASE, 'root': ALLSCALAR}, lambda b: values.FLOATS + values.INTS + [True, False, None]))
    fam.append(('floats-attr', {'classes': BASE + [_K([('f', 'float'), ('g', ('opt', 'float'), None)])], 'root': ('cls', 'K')},
                lambda b: [b.classes['K'](f, g) for f in values.FLOATS[:6] + values.FLOATS[-3:] for g in (None, f)]))
    fam.append(('floats-any', {'classes': BASE, 'root': 'any'}, lambda b: [[f] for f in values.FLOATS]))
    fam.append(('ints', {'classes': BASE, 'root': ('list', 'int')}, lambda b: [[i] for i in values.INTS]))
    # ints with more decimal digits than Python's str() accepts (they load from hexadecimal text)
    fam.append(('huge-int', {'classes': BASE + [_K([('n', 'int'), ('l', ('opt', ('list', 'int')), None)])], 'root': ('cls', 'K')},
                lambda b: [b.classes['K'](16 ** 4400 - 1), b.classes['K'](-(16 ** 4400 - 1), [10 ** 4299, 10 ** 4300])]))
    fam.append(('bools', {'classes': BASE, 'root': ('dict', 'str', ('union', ['bool', 'int']))},
                lambda b: [{'a': True, 'b': False, 'c': 1, 'd': 0}]))
    fam.append(('bool-fix', {'classes': BASE, 'root': ('list', ('union', ['buf', 'int']))}, lambda b: [[True, 1, False, 0]]))
    fam.append(('none', {'classes': BASE, 'root': ('list', ('opt', 'str'))}, lambda b: [[None, 'null', '~', '', 'None']]))
    fam.append(('dates', {'classes': BASE, 'root': 'date'}, lambda b: list(values.DATES) + list(values.DATETIMES)))
    fam.append(('dates-attr', {'classes': BASE + [_K([('d', 'date'), ('l', ('list', 'date'), None)])], 'root': ('cls', 'K')},
                lambda b: [b.classes['K'](d, [_copy(d), _copy(e)]) for d in values.DATES + values.DATETIMES for e in values.DATETIMES[:2]]))
    fam.append(('dates-any', {'classes': BASE, 'root': 'any'}, lambda b: [{'d': d} for d in values.DATES + values.DATETIMES]))
    fam.append(('paths', {'classes': BASE, 'root': 'path'}, lambda b: list(values.PATHS)))
    fam.append(('paths-attr', {'classes': BASE + [_K([('p', 'path'), ('l', ('list', 'path'), None), ('d', ('dict', 'str', 'path'), None)])],
                               'root': ('cls', 'K')},
                lambda b: [b.classes['K'](p, [_copy(p), pathlib.Path('x')], {'k': _copy(p)}) for p in values.PATHS]))
    fam.append(('datetime-offset-seconds', {'classes': BASE + [_K([('d', 'date'), ('n', 'int', 0)])], 'root': ('list', ('union', ['date', ('cls', 'K')]))},
                lambda b: [[values.DATETIME_OFFSET_SECONDS], [b.classes['K'](values.DATETIME_OFFSET_SECONDS)]]))
    fam.append(('enums', {'classes': BASE, 'root': ('cls', 'E')}, lambda b: list(b.classes['E'])))
    for mix in ('str', 'int'):
        em = {'name': 'Em', 'kind': 'enum', 'mixin': mix, 'members': ['high', 'low', 'true', 'a_b']}
        fam.append(('enums-mixin-%s' % mix, {'classes': BASE + [em], 'root': ('cls', 'Em')}, lambda b: list(b.classes['Em'])))
        fam.append(('enums-mixin-%s-coll' % mix, {'classes': BASE + [em], 'root': ('dict', 'str', ('list', ('cls', 'Em')))},
                    lambda b: [{'k': list(b.classes['Em'])}]))
        fam.append(('enums-mixin-%s-attr' % mix,
                    {'classes': BASE + [em, _K([('e', ('cls', 'Em')), ('o', ('opt', ('cls', 'Em')), None)])], 'root': ('cls', 'K')},
                    lambda b: [b.classes['K'](e, o) for e in b.classes['Em'] for o in (None, e)]))
    OD = collections.OrderedDict
    for pos in (0, 1):
        kx = _K([('x', 'int'), ('y', 'int', 0), ('z', 'str', 'd')][:3] if pos == 1 else [('y', 'int', 0), ('z', 'str', 'd')],
                extra=True, extra_pos=pos)
        if pos == 1:
            mk = lambda b: [b.classes['K'](1, OD(), 2), b.classes['K'](1, OD([('zeta', 1), ('alpha', 'a')]), 2, 'w'),   # noqa
                            b.classes['K'](3, OD([('q', [1, {'r': None}])]))]
        else:
            mk = lambda b: [b.classes['K'](OD([('zeta', 1), ('alpha', 'a')]), 2, 'w'), b.classes['K'](OD(), 5)]   # noqa
        fam.append(('extras-declared-at-%d' % pos, {'classes': BASE + [kx], 'root': ('cls', 'K')}, mk))
    fam.append(('enums-coll', {'classes': BASE, 'root': ('dict', 'str', ('list', ('cls', 'E')))},
                lambda b: [{'k': list(b.classes['E'])}]))
    fam.append(('enums-union', {'classes': BASE, 'root': ('list', ('union', ['int', ('cls', 'E')]))},
                lambda b: [[1] + list(b.classes['E'])]))
    fam.append(('enums-attr', {'classes': BASE + [_K([('e', ('cls', 'E')), ('o', ('opt', ('cls', 'E')), None)])], 'root': ('cls', 'K')},
                lambda b: [b.classes['K'](e, o) for e in b.classes['E'] for o in (None, e)]))
    for kind in ('S', 'Sy', 'Ss'):
        fam.append(('strlike-' + kind, {'classes': BASE, 'root': ('dict', ('cls', kind), ('list', ('cls', kind)))},
                    lambda b, kind=kind: [{b.classes[kind](s): [b.classes[kind](s), b.classes[kind]('x')]} for s in ('a', '1', 'true', '', 'a b', 'k: v', '1e5', 'x\U0001F600y')]))
    fam.append(('nested', {'classes': BASE + [_K([('i', ('cls', 'In')), ('l', ('list', ('cls', 'In')), None),
                                                   ('d', ('dict', 'str', ('cls', 'In')), None)])], 'root': ('cls', 'K')},
                lambda b: [b.classes['K'](b.classes['In'](1), [b.classes['In'](2, 'x'), b.classes['In'](3)], {'k': b.classes['In'](4, '1')}),
                           b.classes['K'](b.classes['In'](1, 'dq'), [], {})]))
    fam.append(('extras', {'classes': BASE + [_K([('x', 'int'), ('y', 'str', 'd')], extra=True)], 'root': ('cls', 'K')},
                lambda b: [b.classes['K'](1, 'd', collections.OrderedDict()),
                           b.classes['K'](1, 'v', collections.OrderedDict([('z', 1), ('a', [1, {'k': 'v'}]), ('m', {'b': 1, 'a': None})])),
                           b.classes['K'](2, 'd', collections.OrderedDict([('1', 'one'), ('true', True), ('f', 1.5)])),
                           # extra attributes may have any name, also the ones the constructor machinery uses
                           b.classes['K'](3, 'd', collections.OrderedDict([('self', 'me'), ('_yatiml_extra', {'a': 1}), ('cls', 2)]))]))
    # attributes that are not entries of the instance __dict__: __slots__ classes (also derived ones) and attributes
    # offered through a property of the parameter's name
    sl = {'name': 'Sl', 'params': [('x', 'int'), ('y', 'str', 'a')], 'slots': True}
    sd = {'name': 'Sd', 'bases': ['Sl'], 'params': [('x', 'int'), ('z', ('cls', 'In')), ('y', 'str', 'a')], 'slots': True}
    pr = {'name': 'Pr', 'params': [('x', 'int'), ('e', ('cls', 'E')), ('l', ('opt', ('list', 'int')), None)], 'props': True}
    px = {'name': 'Px', 'params': [('x', 'int')], 'props': True, 'extra': True}
    fam.append(('slots', {'classes': BASE + [sl, sd], 'root': ('list', ('cls', 'Sl'))},
                lambda b: [[b.classes['Sl'](1), b.classes['Sl'](2, 'b')], [b.classes['Sd'](1, b.classes['In'](5)), b.classes['Sd'](3, b.classes['In'](6, 'q'), '1')]]))
    fam.append(('props', {'classes': BASE + [pr], 'root': ('dict', 'str', ('cls', 'Pr'))},
                lambda b: [{'a': b.classes['Pr'](1, list(b.classes['E'])[0], [1, 2]), 'b': b.classes['Pr'](2, list(b.classes['E'])[1])}]))
    fam.append(('props-extra', {'classes': BASE + [px], 'root': ('cls', 'Px')},
                lambda b: [b.classes['Px'](1, collections.OrderedDict([('k', 'v'), ('m', [1])])), b.classes['Px'](2, collections.OrderedDict())]))
    fam.append(('hier', {'classes': BASE + [{'name': 'A', 'params': [('x', 'int')]},
                                            {'name': 'B', 'bases': ['A'], 'params': [('x', 'int'), ('y', 'int')]},
                                            {'name': 'C', 'bases': ['A'], 'params': [('x', 'int'), ('z', 'str')]}],
                         'root': ('list', ('cls', 'A'))},
                lambda b: [[b.classes['A'](1), b.classes['B'](1, 2), b.classes['C'](3, 'z')]]))
    fam.append(('opt-union', {'classes': BASE + [_K([('a', ('opt', 'int'), None), ('u', ('union', ['int', 'str', ('list', 'int')]), 'x'),
                                                      ('m', ('opt', ('dict', 'str', ('opt', 'float'))), None)])], 'root': ('cls', 'K')},
                lambda b: [b.classes['K'](a, u, m) for a in (None, 0, 5) for u in (1, 'x', '1', [1, 2], [])
                           for m in (None, {}, {'k': None, 'l': 1.5})]))
    fam.append(('abstract-generics', {'classes': BASE + [_K([('s', ('list', 'int', 'Sequence')), ('m', ('opt', ('dict', 'str', 'int', 'Mapping')), None)])],
                                      'root': ('cls', 'K')},
                lambda b: [b.classes['K']([1, 2], {'a': 1}), b.classes['K']([], None)]))
    return fam


def _copy(v):
    """a fresh, equal object (tree-shaped values must not share date/path objects)"""
    if isinstance(v, datetime.datetime):
        return v.replace()
    if isinstance(v, datetime.date):
        return v.replace()
    if isinstance(v, pathlib.PurePath):
        return pathlib.Path(str(v))
    return v


def _cross_kind_equal(d, v):
    """1 == 1.0: equal in Python, so either may come back after default-value sweetening"""
    num = lambda x: isinstance(x, (int, float)) and not isinstance(x, bool)   # noqa
    return num(d) and num(v) and type(d) is not type(v) and d == v


DEFAULT_PAIRS = [None, 0, 1, 5, 2.5, 1.0, '', 'abc', '5', True, False, float('inf')]
TYPE_FOR = {'null': ('opt', 'int'), 'int': 'int', 'float': 'float', 'str': 'str', 'bool': 'bool'}


def defaults_family():
    """classes using remove_attributes_with_default_values for every (default, value) pair"""
    fam = []
    for d in DEFAULT_PAIRS:
        spec = {'classes': BASE + [_K([('r', 'int'), ('x', ALLSCALAR, d), ('y', 'str', 'dy')],
                                      hooks={'sweeten': [('remove_defaults',)]})], 'root': ('cls', 'K')}
        fam.append(('defaults:%r' % (d,), spec,
                    lambda b, d=d: [b.classes['K'](1, v, y) for v in DEFAULT_PAIRS + [float('nan'), 2, 'dy'] for y in ('dy', 'x')
                                    if not _cross_kind_equal(d, v)]))
    spec = {'classes': BASE + [_K([('r', 'int'), ('l', ('opt', ('list', 'int')), None), ('e', ('opt', ('cls', 'E')), None)],
                                  hooks={'sweeten': [('remove_defaults',)]}, defaults={'l': []})], 'root': ('cls', 'K')}
    # (l=[] is dropped by the override and comes back as the signature default None: the documented idiom
    # normalises None to [] inside __init__, which the generated classes do not do, so [] is not a value here)
    spec_c = {'classes': BASE + [_K([('r', 'int'), ('l', ('opt', ('list', 'int')), None), ('d', ('opt', ('dict', 'str', 'int')), None),
                                     ('s', ('opt', 'str'), None), ('n', ('opt', 'int'), None)],
                                    hooks={'sweeten': [('remove_defaults',)]})], 'root': ('list', ('cls', 'K'))}
    # empty collections / falsy scalars are values of their own, not the default None
    fam.append(('defaults-collections', spec_c,
                lambda b: [[b.classes['K'](1, l, dd, s, n)] for l in (None, [], [1]) for dd in (None, {}, {'a': 1})
                           for s, n in ((None, None), ('', 0), ('x', 1))]))
    # a defaulted _yatiml_extra declared BEFORE other defaulted parameters, with default-value sweetening
    spec_e = {'classes': BASE + [_K([('x', 'int'), ('y', 'int', 3), ('z', 'int', 0), ('w', 'str', 'd')], extra='opt', extra_pos=1,
                                    hooks={'sweeten': [('remove_defaults',)]})], 'root': ('list', ('cls', 'K'))}
    fam.append(('defaults-extra-first', spec_e,
                lambda b: [[b.classes['K'](1, collections.OrderedDict(), y, z, w)] for y in (3, 0, 5) for z in (0, 3, 5) for w in ('d', '3', 'x')] +
                          [[b.classes['K'](1, collections.OrderedDict([('q', 1)]), 0, 3, 'd')]] +
                          # extra attributes that are called like the machinery's own parameters and hold what that
                          # parameter's default is: extras like any other, not defaulted attributes
                          [[b.classes['K'](1, collections.OrderedDict([('_yatiml_extra', None), ('other', None)]), 3, 0, 'd')],
                           [b.classes['K'](2, collections.OrderedDict([('self', None), ('_yatiml_extra', 3), ('y', None)][:2]), 0, 0, 'x')]]))
    fam.append(('defaults-override', spec, lambda b: [b.classes['K'](1, l, e) for l in (None, [1]) for e in (None, list(b.classes['E'])[0])]))
    return fam


def inverse_family():
    """classes whose sweeten and savorize are inverses"""
    item = {'name': 'It', 'params': [('id', 'str'), ('v', 'int'), ('w', 'str', 'dw')]}
    fam = []
    fam.append(('inverse-index', {'classes': BASE + [item, _K([('items', ('dict', 'str', ('cls', 'It')))],
                                                              hooks={'sweeten': [('index_to_map', 'items', 'id', 'v')],
                                                                     'savorize': [('map_to_index', 'items', 'id', 'v')],
                                                                     'recognize': [('require_attr', 'items')]})],
                                  'root': ('cls', 'K')},
                lambda b: [b.classes['K'](collections.OrderedDict((k, b.classes['It'](k, i, w)) for i, (k, w) in enumerate(ks)))
                           for ks in ([], [('a', 'dw')], [('a', 'dw'), ('b', 'x')], [('1', 'x'), ('true', 'dw')])]))
    fam.append(('inverse-seq', {'classes': BASE + [item, _K([('items', ('list', ('cls', 'It')))],
                                                            hooks={'sweeten': [('seq_to_map', 'items', 'id', 'v')],
                                                                   'savorize': [('map_to_seq', 'items', 'id', 'v')],
                                                                   'recognize': [('require_attr', 'items')]})],
                                'root': ('cls', 'K')},
                lambda b: [b.classes['K']([b.classes['It'](k, i, w) for i, (k, w) in enumerate(ks)])
                           for ks in ([], [('a', 'dw')], [('a', 'dw'), ('b', 'x')], [('b', 'x'), ('a', 'y')])]))
    # the same two pairs where the key / the key attribute is not a plain str: the dict key node and the
    # re-created key attribute are then processed as different types
    mkk = {'str': lambda b, k: k, 'S': lambda b, k: b.classes['S'](k), 'Sy': lambda b, k: b.classes['Sy'](k),
           'Ss': lambda b, k: b.classes['Ss'](k), 'path': lambda b, k: pathlib.Path(k), 'E': lambda b, k: b.classes['E'][k]}
    tyk = {'str': 'str', 'S': ('cls', 'S'), 'Sy': ('cls', 'Sy'), 'Ss': ('cls', 'Ss'), 'path': 'path', 'E': ('cls', 'E')}
    for kt, it in (('S', 'str'), ('Sy', 'str'), ('Ss', 'str'), ('str', 'path'), ('str', 'E'), ('str', 'S'), ('Sy', 'Sy'), ('S', 'E')):
        item2 = {'name': 'It', 'params': [('id', tyk[it]), ('v', 'int'), ('w', 'str', 'dw')]}
        keys = ['red', 'a_b'] if 'E' in (kt, it) else ['a', 'red']
        fam.append(('inverse-index:%s/%s' % (kt, it),
                    {'classes': BASE + [item2, _K([('items', ('dict', tyk[kt], ('cls', 'It')))],
                                                  hooks={'sweeten': [('index_to_map', 'items', 'id', 'v')],
                                                         'savorize': [('map_to_index', 'items', 'id', 'v')],
                                                         'recognize': [('require_attr', 'items')]})],
                     'root': ('cls', 'K')},
                    lambda b, kt=kt, it=it, keys=keys: [
                        b.classes['K'](collections.OrderedDict((mkk[kt](b, k), b.classes['It'](mkk[it](b, k), i, w))
                                                               for i, (k, w) in enumerate(ks)))
                        for ks in ([(keys[0], 'dw')], [(keys[0], 'dw'), (keys[1], 'x')])]))
    for it in ('path', 'E', 'S', 'Sy'):
        item2 = {'name': 'It', 'params': [('id', tyk[it]), ('v', 'int'), ('w', 'str', 'dw')]}
        keys = ['red', 'a_b']
        fam.append(('inverse-seq:%s' % it,
                    {'classes': BASE + [item2, _K([('items', ('list', ('cls', 'It')))],
                                                  hooks={'sweeten': [('seq_to_map', 'items', 'id', 'v')],
                                                         'savorize': [('map_to_seq', 'items', 'id', 'v')],
                                                         'recognize': [('require_attr', 'items')]})],
                     'root': ('cls', 'K')},
                    lambda b, it=it, keys=keys: [b.classes['K']([b.classes['It'](mkk[it](b, k), i, w) for i, (k, w) in enumerate(ks)])
                                                 for ks in ([(keys[0], 'dw')], [(keys[0], 'dw'), (keys[1], 'x')])]))
    fam.append(('inverse-dashes', {'classes': BASE + [_K([('a_b', 'int'), ('c_d_e', 'str', 'x')],
                                                         hooks={'sweeten': [('unders_to_dashes',)], 'savorize': [('dashes_to_unders',)]})],
                                   'root': ('list', ('cls', 'K'))},
                lambda b: [[b.classes['K'](1), b.classes['K'](2, 'y')]]))
    fam.append(('inverse-scalar', {'classes': BASE + [_K([('v', 'int')],
                                                         hooks={'sweeten': [('attr_to_scalar', 'v')], 'savorize': [('scalar_to_attr', 'v')],
                                                                'recognize': [('permissive',)]})],
                                   'root': ('dict', 'str', ('cls', 'K'))},
                lambda b: [{'a': b.classes['K'](1), 'b': b.classes['K'](2)}]))
    return fam


def shared_family():
    """every way of referencing one sub-object twice"""
    fam = []
    spec = {'classes': BASE + [_K([('p', 'any'), ('q', 'any', None)])], 'root': 'any'}

    def mk_any(b):
        outs = []
        for o in ([1, 2], {'k': 'v'}, [], {}, 'str', 10 ** 20, 1.5, [[1]], {'a': [1]}):
            outs += [[o, o], {'a': o, 'b': o}, [[o], [o]], {'a': {'x': o}, 'b': [o]}]
        return outs
    fam.append(('shared-plain', spec, mk_any))
    spec2 = {'classes': BASE + [_K([('p', ('cls', 'In')), ('q', ('opt', ('cls', 'In')), None), ('l', ('opt', ('list', ('cls', 'In'))), None)])],
             'root': ('cls', 'K')}

    def mk_cls(b):
        i = b.classes['In'](1, 'x')
        return [b.classes['K'](i, i), b.classes['K'](i, None, [i, i]), b.classes['K'](b.classes['In'](2), None, [i, i])]
    fam.append(('shared-class', spec2, mk_cls))
    for name, t, mk in (('path', 'path', lambda b: pathlib.Path('a/b')), ('userstring', ('cls', 'S'), lambda b: b.classes['S']('s')),
                        ('ystring', ('cls', 'Sy'), lambda b: b.classes['Sy']('s')), ('date', 'date', lambda b: datetime.date(2001, 1, 1)),
                        ('datetime', 'date', lambda b: datetime.datetime(2001, 1, 1, 10, 0)), ('enum', ('cls', 'E'), lambda b: list(b.classes['E'])[0]),
                        ('list', ('list', 'int'), lambda b: [1, 2]), ('dict', ('dict', 'str', 'int'), lambda b: {'k': 1})):
        spec3 = {'classes': BASE + [_K([('p', t), ('q', ('opt', t), None)])], 'root': ('list', ('cls', 'K'))}

        def mk3(b, mk=mk):
            o = mk(b)
            k = b.classes['K'](o, o)
            return [[k], [b.classes['K'](o), b.classes['K'](o)], [k, k]]
        fam.append(('shared-' + name, spec3, mk3))
        spec4 = {'classes': BASE, 'root': ('dict', 'str', ('list', t))}

        def mk4(b, mk=mk):
            o = mk(b)
            return [{'a': [o, o]}, {'a': [o], 'b': [o]}]
        fam.append(('shared-coll-' + name, spec4, mk4))
    # an item that is also referenced from outside the collection whose sweeten restructures the items
    item = {'name': 'It', 'params': [('id', 'str'), ('v', 'int'), ('w', 'str', 'dw')]}
    shop_l = {'name': 'Shop', 'params': [('items', ('list', ('cls', 'It')))],
              'hooks': {'sweeten': [('seq_to_map', 'items', 'id', 'v')], 'savorize': [('map_to_seq', 'items', 'id', 'v')],
                        'recognize': [('require_attr', 'items')]}}
    shop_d = {'name': 'Shop', 'params': [('items', ('dict', 'str', ('cls', 'It')))],
              'hooks': {'sweeten': [('index_to_map', 'items', 'id', 'v')], 'savorize': [('map_to_index', 'items', 'id', 'v')],
                        'recognize': [('require_attr', 'items')]}}
    holder = {'name': 'Holder', 'params': [('first', ('cls', 'It')), ('shop', ('cls', 'Shop')), ('last', ('opt', ('cls', 'It')), None)]}

    def mk_shared_items(b, as_dict):
        It, Shop, H = b.classes['It'], b.classes['Shop'], b.classes['Holder']
        i1, i2 = It('i1', 1), It('i2', 2, 'x')
        coll = (lambda its: collections.OrderedDict((i.id, i) for i in its)) if as_dict else list
        return [H(i1, Shop(coll([i1, i2]))), H(i2, Shop(coll([i1, i2])), i1), H(It('i3', 3), Shop(coll([i1])), i1)]
    fam.append(('shared-item-seq-sweeten', {'classes': BASE + [item, shop_l, holder], 'root': ('cls', 'Holder')},
                lambda b: mk_shared_items(b, False)))
    fam.append(('shared-item-index-sweeten', {'classes': BASE + [item, shop_d, holder], 'root': ('cls', 'Holder')},
                lambda b: mk_shared_items(b, True)))
    # the COLLECTION is also the value of an attribute that is not sweetened (one dict / list object, two attributes)
    for as_dict in (False, True):
        t = ('dict', 'str', ('cls', 'It')) if as_dict else ('list', ('cls', 'It'))
        ops = ('index_to_map', 'map_to_index') if as_dict else ('seq_to_map', 'map_to_seq')
        co = {'name': 'Co', 'params': [('items', t), ('staff', ('opt', t), None)],
              'hooks': {'sweeten': [(ops[0], 'items', 'id', 'v')], 'savorize': [(ops[1], 'items', 'id', 'v')],
                        'recognize': [('require_attr', 'items')]}}

        def mk_shared_coll(b, as_dict=as_dict):
            It, Co = b.classes['It'], b.classes['Co']
            i1, i2 = It('i1', 1), It('i2', 2, 'x')
            coll = (lambda its: collections.OrderedDict((i.id, i) for i in its)) if as_dict else list
            d1, d2 = coll([i1]), coll([i1, i2])
            return [Co(d1, d1), Co(d2, d2), Co(d2, coll([i1, i2]))]
        fam.append(('shared-collection-%s-sweeten' % ('index' if as_dict else 'seq'),
                    {'classes': BASE + [item, co], 'root': ('cls', 'Co')}, mk_shared_coll))
    # the savorize-direction helpers used as sweeteners (Python keeps a dict, the YAML items carry their key inside),
    # with one item object under two keys and also referenced from outside the collection
    itn = {'name': 'Itn', 'params': [('v', 'int'), ('w', 'str', 'dw')]}
    for opn, inv in (('map_to_seq', 'seq_to_map'), ('map_to_index', 'index_to_map')):
        shop_r = {'name': 'ShopR', 'params': [('items', ('dict', 'str', ('cls', 'Itn')))],
                  'hooks': {'sweeten': [(opn, 'items', 'id', None)], 'savorize': [(inv, 'items', 'id', None)],
                            'recognize': [('require_attr', 'items')]}}
        holder_r = {'name': 'HolderR', 'params': [('first', ('cls', 'Itn')), ('shop', ('cls', 'ShopR')), ('last', ('opt', ('cls', 'Itn')), None)]}

        def mk_rev(b):
            Itn, ShopR, H = b.classes['Itn'], b.classes['ShopR'], b.classes['HolderR']
            i1, i2 = Itn(1), Itn(2, 'x')
            od = collections.OrderedDict
            return [H(Itn(3), ShopR(od([('a', i1), ('b', i2)]))), H(i1, ShopR(od([('a', i1), ('b', i2)]))),
                    H(Itn(3), ShopR(od([('a', i1), ('b', i1)]))), H(i2, ShopR(od([('a', i1), ('b', i1)])), i1)]
        fam.append(('shared-item-%s-sweeten' % opn.replace('_', '-'), {'classes': BASE + [itn, shop_r, holder_r], 'root': ('cls', 'HolderR')}, mk_rev))
    # one object of a class whose sweeten REPLACES the node (short form), referenced twice
    kshort = _K([('v', 'int')], hooks={'sweeten': [('attr_to_scalar', 'v')], 'savorize': [('scalar_to_attr', 'v')],
                                       'recognize': [('permissive',)]})
    fam.append(('shared-replacing-sweeten', {'classes': BASE + [kshort], 'root': ('list', ('cls', 'K'))},
                lambda b: [[k, k] for k in [b.classes['K'](1)]] + [[k, b.classes['K'](2), k] for k in [b.classes['K'](3)]]))
    fam.append(('shared-replacing-sweeten-dict', {'classes': BASE + [kshort], 'root': ('dict', 'str', ('cls', 'K'))},
                lambda b: [{'a': k, 'b': k} for k in [b.classes['K'](1)]]))
    kdash = _K([('a_b', 'int'), ('c_d', 'str', 'x')], hooks={'sweeten': [('unders_to_dashes',)], 'savorize': [('dashes_to_unders',)]})
    fam.append(('shared-sweetened-mapping', {'classes': BASE + [kdash], 'root': ('list', ('cls', 'K'))},
                lambda b: [[k, k] for k in [b.classes['K'](1, 'y')]]))
    return fam


def structured_families():
    return scalar_family() + defaults_family() + inverse_family() + shared_family()


def tree_shaped(fam_name):
    """families whose values reference no object twice (C07 needs tree-shaped values)"""
    # an immutable leaf (date, path, string-like, enum member) occurring twice is still a tree: JSON has no identity
    leaves = ('path', 'userstring', 'ystring', 'date', 'datetime', 'enum')
    if fam_name in ['shared-' + x for x in leaves] + ['shared-coll-' + x for x in leaves]:
        return True
    return not fam_name.startswith('shared')
