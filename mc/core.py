"""Generic explorer plumbing: work-unit sharding, counters, violations, evidence.

A property harness (mc/props/Cnn.py) provides

    PROPERTY = 'Cnn'
    def units(tier) -> list            small picklable work-unit descriptors
    def run_unit(unit, tier) -> Result exhaustive enumeration of that unit on the real code
    def finish(total, tier)            optional: vacuity expectations, extra summary
    def replay(payload) -> (bool violated, str detail)
    RULE, BOUNDS(tier), ASSUMPTIONS    texts for the evidence file

run_unit enumerates *every* case of its unit (nothing is sampled); the driver merges
the results, classifies violations against known_findings.json and writes evidence.
"""
import collections
import hashlib
import json
import multiprocessing
import os
import random
import subprocess
import sys
import time
import traceback

HERE = os.path.dirname(os.path.dirname(os.path.abspath(__file__)))
REPO = os.environ.get('YATIML_VERIF_REPO', '/repo')
NPROC = int(os.environ.get('VERIF_JOBS', '16'))
MAX_VIOL_PER_KEY = 3          # replay files kept per finding key
MAX_KEYS_REPORTED = 40


class Vacuous(Exception):
    """The exploration did not reach what it claims to cover: a harness error."""


class HarnessError(Exception):
    pass


class Result:
    """What one work unit covered.  Merged by addition."""

    def __init__(self):
        self.states = 0          # nodes of the choice tree / canonical states visited
        self.transitions = 0     # edges of the choice tree / operations applied
        self.traces = 0          # complete cases executed against the implementation
        self.nontrivial = 0      # distinct cases with a non-trivial outcome (see RULE)
        self.hist = collections.Counter()
        self.violations = []     # dicts: key, what, replay
        self.samples = []        # a few concrete cases
        self.extra = {}          # harness specific, merged with merge_extra
        self.caps = []           # caps hit (never silent)

    def violation(self, key, what, payload):
        self.hist['VIOLATION:' + key] += 1
        if sum(1 for v in self.violations if v['key'] == key) < MAX_VIOL_PER_KEY:
            self.violations.append({'key': key, 'what': what, 'replay': payload})

    def sample(self, s, limit=3):
        if len(self.samples) < limit:
            self.samples.append(s)

    def merge(self, other):
        self.states += other.states
        self.transitions += other.transitions
        self.traces += other.traces
        self.nontrivial += other.nontrivial
        self.hist.update(other.hist)
        for v in other.violations:
            if sum(1 for w in self.violations if w['key'] == v['key']) < MAX_VIOL_PER_KEY:
                self.violations.append(v)
        for s in other.samples:
            if len(self.samples) < 6:
                self.samples.append(s)
        for k, v in other.extra.items():
            if isinstance(v, (int, float)):
                self.extra[k] = self.extra.get(k, 0) + v
            elif isinstance(v, (set, frozenset)):
                self.extra[k] = set(self.extra.get(k, set())) | set(v)
            elif isinstance(v, list):
                self.extra[k] = self.extra.get(k, []) + v
            elif isinstance(v, dict):
                d = self.extra.setdefault(k, {})
                for kk, vv in v.items():
                    d[kk] = d.get(kk, 0) + vv if isinstance(vv, (int, float)) else vv
            else:
                self.extra[k] = v
        self.caps += other.caps


_PROP = None
_TIER = None


def _worker(unit):
    try:
        r = _PROP.run_unit(unit, _TIER)
        return ('ok', r)
    except BaseException as e:     # noqa: a harness bug must never look like a pass
        return ('err', '%s\nunit=%r\n%s' % (type(e).__name__, unit, traceback.format_exc()))


def explore(prop, tier, seed, jobs=None):
    """Run every unit of the property on a fork pool; return the merged Result."""
    global _PROP, _TIER
    _PROP, _TIER = prop, tier
    units = list(prop.units(tier))
    order = list(range(len(units)))
    random.Random(seed).shuffle(order)      # the seed only permutes scheduling of work units
    total = Result()
    jobs = jobs or NPROC
    errors = []
    if jobs <= 1 or len(units) <= 1 or getattr(prop, 'SERIAL', False):
        for i in order:
            st, r = _worker(units[i])
            if st == 'ok':
                total.merge(r)
            else:
                errors.append(r)
    else:
        ctx = multiprocessing.get_context('fork')
        with ctx.Pool(min(jobs, len(units))) as pool:
            for st, r in pool.imap_unordered(_worker, [units[i] for i in order], chunksize=1):
                if st == 'ok':
                    total.merge(r)
                else:
                    errors.append(r)
    total.extra['units'] = len(units)
    if errors:
        raise HarnessError('%d work unit(s) failed:\n%s' % (len(errors), errors[0]))
    return total


# ---------------------------------------------------------------- known findings

def load_known():
    p = os.path.join(HERE, 'known_findings.json')
    if not os.path.exists(p):
        return {'open': [], 'fixed': []}
    with open(p) as f:
        return json.load(f)


def classify(prop_id, total, fresh_replay=True):
    """Split violations into known findings and new violations; write replay files.

    Returns (lines_to_print, n_new).
    """
    known = {e['key']: e for e in load_known()['open'] if e['property'] == prop_id}
    lines = []
    new = collections.OrderedDict()
    seen_known = collections.OrderedDict()
    counts = collections.Counter()
    for k, n in total.hist.items():
        if k.startswith('VIOLATION:'):
            counts[k[len('VIOLATION:'):]] = n
    for v in total.violations:
        if v['key'] in known:
            seen_known.setdefault(v['key'], v)
        else:
            new.setdefault(v['key'], []).append(v)
    for key in seen_known:
        lines.append('KNOWN-FINDING: property=%s %s [key=%s, %d case(s) this run]' % (
            prop_id, known[key]['what'], key, counts[key]))
    rdir = os.path.join(os.environ.get('VERIF_EVIDENCE_DIR') or HERE, 'replays', prop_id)
    n_new = 0
    for key, vs in list(new.items())[:MAX_KEYS_REPORTED]:
        os.makedirs(rdir, exist_ok=True)
        for v in vs[:1]:
            payload = dict(v['replay'])
            payload['property'] = prop_id
            payload['key'] = key
            payload['what'] = v['what']
            name = hashlib.sha1(json.dumps(payload, sort_keys=True, default=repr).encode()).hexdigest()[:12]
            path = os.path.join(rdir, name + '.json')
            with open(path, 'w') as f:
                json.dump(payload, f, indent=1, sort_keys=True, default=repr)
            note = ''
            if fresh_replay:
                rc = subprocess.run([os.path.join(HERE, 'check'), prop_id, '--replay', path],
                                    stdout=subprocess.PIPE, stderr=subprocess.STDOUT, text=True)
                if rc.returncode == 1:
                    note = ' (reproduced in a fresh process)'
                elif rc.returncode == 0:
                    note = ' (NOT reproduced in a fresh process: history dependent, see replay file)'
                else:
                    note = ' (replay errored: %s)' % rc.stdout.strip()[-200:]
            lines.append('VIOLATION property=%s replay=%s' % (prop_id, path))
            lines.append('  key=%s cases=%d%s\n  %s' % (key, counts[key], note, v['what']))
            n_new += 1
    if len(new) > MAX_KEYS_REPORTED:
        lines.append('  ... and %d more distinct violation keys' % (len(new) - MAX_KEYS_REPORTED))
    return lines, n_new, list(seen_known)


# ---------------------------------------------------------------- evidence

def _jsonable(x, depth=0):
    if depth > 8:
        return repr(x)[:200]
    if isinstance(x, (str, int, float, bool)) or x is None:
        if isinstance(x, float) and (x != x or x in (float('inf'), float('-inf'))):
            return repr(x)
        return x
    if isinstance(x, dict):
        return {str(k): _jsonable(v, depth + 1) for k, v in x.items()}
    if isinstance(x, (list, tuple, set, frozenset)):
        return [_jsonable(v, depth + 1) for v in x]
    return repr(x)[:300]


def check_evidence_shape(ev):
    """Minimal structural check mirroring EVIDENCE.schema.json for level=model_checking."""
    for k in ('property_id', 'tier', 'seed', 'level', 'coverage', 'wall_s'):
        if k not in ev:
            raise HarnessError('evidence lacks ' + k)
    c = ev['coverage']
    if ev['tier'] not in ('quick', 'thorough') or not isinstance(ev['seed'], int):
        raise HarnessError('bad tier/seed')
    for k in ('states', 'transitions'):
        if not (isinstance(c.get(k), int) and c[k] >= 1):
            raise HarnessError('coverage.%s must be an integer >= 1' % k)
    if not (isinstance(c.get('traces_validated_against_impl'), int) and c['traces_validated_against_impl'] >= 0):
        raise HarnessError('coverage.traces_validated_against_impl')
    if not (isinstance(c.get('samples'), list) and len(c['samples']) >= 1):
        raise HarnessError('coverage.samples must be a non-empty list')
    if not (isinstance(c.get('evaluations'), int) and c['evaluations'] >= 1):
        raise HarnessError('coverage.evaluations')
    if not (isinstance(c.get('distinct_nontrivial'), int) and c['distinct_nontrivial'] >= 0):
        raise HarnessError('coverage.distinct_nontrivial')


def write_evidence(prop, tier, seed, total, wall, n_new, known_seen, exhaustive=True):
    hist = {k: v for k, v in sorted(total.hist.items()) if not k.startswith('VIOLATION:')}
    viol = {k[len('VIOLATION:'):]: v for k, v in sorted(total.hist.items()) if k.startswith('VIOLATION:')}
    extra = {k: (sorted(map(str, v)) if isinstance(v, (set, frozenset)) else v) for k, v in total.extra.items()}
    ev = {
        'property_id': prop.PROPERTY,
        'tier': tier,
        'seed': seed,
        'level': 'model_checking',
        'coverage': {
            'states': total.states,
            'transitions': total.transitions,
            'traces_validated_against_impl': total.traces,
            'evaluations': total.traces,
            'distinct_nontrivial': total.nontrivial,
            'rule': prop.RULE,
            'samples': _jsonable(total.samples),
            'exhaustive': bool(exhaustive and not total.caps),
            'bounds': _jsonable(prop.BOUNDS(tier) if callable(prop.BOUNDS) else prop.BOUNDS),
            'caps_hit': total.caps,
            'outcome_histogram': hist,
            'violation_histogram': viol,
            'known_findings_reobserved': known_seen,
            'details': _jsonable(extra),
            'repo': REPO,
        },
        'assumptions': list(prop.ASSUMPTIONS),
        'wall_s': round(wall, 2),
        'violations': n_new,
    }
    check_evidence_shape(ev)
    # VERIF_EVIDENCE_DIR is only set by tools/try_mutant.sh, so that runs against a scratch copy of the
    # repository do not overwrite the evidence of the checks on /repo
    edir = os.environ.get('VERIF_EVIDENCE_DIR') or os.path.join(HERE, 'evidence')
    os.makedirs(edir, exist_ok=True)
    path = os.path.join(edir, prop.PROPERTY + '.json')
    tmp = path + '.tmp%d' % os.getpid()
    with open(tmp, 'w') as f:
        json.dump(ev, f, indent=1, sort_keys=True)
        f.write('\n')
    os.replace(tmp, path)
    return path


def tb_site(exc):
    """innermost frame inside yatiml or yaml: 'file.py:function' (a stable call-site key)."""
    tb = traceback.extract_tb(exc.__traceback__)
    site = None
    for fr in tb:
        fn = fr.filename.replace('\\', '/')
        if '/yatiml/' in fn or '/yaml/' in fn:
            pkg = 'yatiml' if '/yatiml/' in fn else 'yaml'
            site = '%s/%s:%s' % (pkg, os.path.basename(fn), fr.name)
    return site or 'outside'
