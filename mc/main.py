"""./check <Cnn> [--tier quick|thorough] [--replay FILE] [--jobs N]"""
import argparse
import importlib
import json
import os
import sys
import time

from mc import core


def preflight():
    import yaml
    import yatiml
    repo = os.path.realpath(core.REPO)
    if not os.path.realpath(yatiml.__file__).startswith(repo + os.sep):
        raise core.HarnessError('yatiml imported from %s, not from %s' % (yatiml.__file__, repo))
    if yaml.SafeLoader.__bases__[2].__module__ != 'yaml.parser':
        raise core.HarnessError('SafeLoader is not the pure-Python loader')
    if os.environ.get('PYTHONHASHSEED') != '0':
        raise core.HarnessError('run through ./check (PYTHONHASHSEED must be pinned)')


def main(argv=None):
    ap = argparse.ArgumentParser()
    ap.add_argument('prop')
    ap.add_argument('--tier', default=os.environ.get('VERIF_TIER', 'quick'), choices=['quick', 'thorough'])
    ap.add_argument('--replay')
    ap.add_argument('--jobs', type=int, default=None)
    ap.add_argument('--no-fresh-replay', action='store_true')
    args = ap.parse_args(argv)
    seed = int(os.environ.get('VERIF_SEED', '0') or 0)
    try:
        preflight()
        if args.prop == 'selftest':
            from mc import selftest
            return selftest.main()
        prop = importlib.import_module('mc.props.' + args.prop)
        if args.replay:
            with open(args.replay) as f:
                payload = json.load(f)
            violated, detail = prop.replay(payload)
            print(detail)
            if violated:
                print('VIOLATION property=%s replay=%s' % (prop.PROPERTY, args.replay))
                return 1
            print('replay: property held on this case')
            return 0
        t0 = time.time()
        total = core.explore(prop, args.tier, seed, args.jobs)
        vac = None
        if hasattr(prop, 'finish'):
            try:
                prop.finish(total, args.tier)
            except core.Vacuous as e:
                vac = e
        wall = time.time() - t0
        lines, n_new, known_seen = core.classify(prop.PROPERTY, total, not args.no_fresh_replay)
        path = core.write_evidence(prop, args.tier, seed, total, wall, n_new, known_seen)
        hist = {k: v for k, v in total.hist.items() if not k.startswith('VIOLATION:')}
        print('%s tier=%s seed=%d units=%s states=%d transitions=%d traces=%d nontrivial=%d wall=%.1fs' % (
            prop.PROPERTY, args.tier, seed, total.extra.get('units'), total.states, total.transitions,
            total.traces, total.nontrivial, wall))
        print('outcomes: ' + ', '.join('%s=%d' % kv for kv in sorted(hist.items())))
        if total.caps:
            print('CAPS HIT (run is not exhaustive above them): %s' % total.caps)
        for ln in lines:
            print(ln)
        print('evidence: ' + path)
        if vac is not None:
            # a vacuous run is reported after the violations (they usually explain it), never as a pass
            print('VACUOUS (harness error, not a pass): %s' % vac)
            return 1 if n_new else 2
        return 1 if n_new else 0
    except core.Vacuous as e:
        print('VACUOUS (harness error, not a pass): %s' % e)
        return 2
    except core.HarnessError as e:
        print('HARNESS ERROR: %s' % e)
        return 2


if __name__ == '__main__':
    sys.exit(main())
