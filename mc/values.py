"""Value catalogue for the dumping properties (C05, C06, C07, C12) and the reference projection.

project(value): the documented projection of an object to plain data (constructor
parameters in declaration order, then extras or _yatiml_attributes(), enum members by
name, string-likes and paths by str(), order kept), transformed by the classes' own
declarative sweeteners re-implemented here on plain data.
"""
import collections
import datetime
import enum
import inspect
import itertools
import math
import pathlib

from mc import models

YAML_ALPHA = 'a:-#[]{},&*!|>\'"%@` ?\n'          # YAML syntax characters (20)
NUM_ALPHA = '01.eE+-_:xtru'                        # number/boolean look-alikes (13)
FIXED_STRINGS = [
    '', ' ', 'a', 'yes', 'no', 'on', 'off', 'y', 'n', 'Yes', 'NO', 'true', 'True', 'TRUE', 'false', 'null', 'Null', '~',
    '1', '-1', '+1', '0x1F', '0o17', '017', '0b11', '1_000', '1:30', '1.5', '1e5', '1E5', '+.5', '-1.e3', '1.2.3', '.inf',
    '-.inf', '.nan', '.NaN', '+.nan', 'inf', 'nan', '1.', '.5', '5.e-1', '1_000.5', '1:30.5', '2001-01-01',
    '2001-01-01 10:00:00', '2001-01-01T10:00:00Z', '<<', '=', '!', '!!str', '&a', '*a', '- a', 'a: b', 'a #b', '#a',
    '[a]', '{a: b}', '"', "'", "it's", 'a"b', '\\', 'a\\nb', ' lead', 'trail ', '\ttab', 'a\tb', 'a\nb', 'a\n', '\na',
    'a\n\nb', 'a\r\nb', 'x' * 100, 'word ' * 30, ('longword' * 5 + ' ') * 6, 'é', 'ü' * 3, '\x85', ' ', ' ',
    '﻿', 'a\x85b', '\U0001F600', 'a\U0001F600b', '\x7f', '\xa0', '%TAG', '---', '...', '--- a', '@a', '`a', '|', '>',
    '? a', ': a', 'a:', 'a: ', '-', '- ', '?', 'null ', ' null', 'TRUE ', '1 ', ' 1', '0', '00', '-0', '1e', 'e1', '0.0',
    '.', '..', '.e3', '-', '+', '_', '1__0', '0x', '0x_', '0b_', '12:30:45', '-12:30', '60:60', 'a,b', 'a, b', '[', ']', '{',
    '}', ',', 'key: [unclosed', '\\x00', '\0' if False else 'nul', 'None', 'True ', '­', '퟿', '', '�',
]
FLOATS = [0.0, -0.0, 0.1, 1.0, -1.5, 1e16, 1e17, 1e-7, 5e-324, 1.7976931348623157e308, 1e22, 123456789.123456789,
          float('inf'), float('-inf'), float('nan')]
INTS = [0, 1, -1, 31, 10 ** 20, -(10 ** 20), 1000]
UTC = datetime.timezone.utc
DATES = [datetime.date(2001, 1, 1), datetime.date(1, 1, 1), datetime.date(9999, 12, 31)]
DATETIMES = [datetime.datetime(2001, 1, 1, 10, 0, 0), datetime.datetime(2001, 1, 1, 10, 0, 0, 123456),
             datetime.datetime(2001, 1, 1, 10, 0, 0, tzinfo=UTC),
             datetime.datetime(2001, 1, 1, 10, 0, 0, tzinfo=datetime.timezone(datetime.timedelta(hours=5, minutes=30))),
             datetime.datetime(1, 1, 1, 0, 0, 0), datetime.datetime(9999, 12, 31, 23, 59, 59, 999999)]
# a UTC offset with seconds (historical local mean times such as +00:19:32): a family of its own, see known_findings.json
DATETIME_OFFSET_SECONDS = datetime.datetime(1930, 1, 1, 10, 0, 0, tzinfo=datetime.timezone(datetime.timedelta(seconds=3661)))
PATHS = [pathlib.Path('a/b'), pathlib.Path('/abs/x y'), pathlib.Path('.'), pathlib.Path('1'), pathlib.Path('true'),
         pathlib.Path('~'), pathlib.Path('~/data'), pathlib.Path('~root/x'), pathlib.Path('a/../b'), pathlib.Path('..'),
         pathlib.Path('$HOME/x'), pathlib.Path('a b '), pathlib.Path('é/ü'), pathlib.Path('null'), pathlib.Path('1e5'), pathlib.Path('a: b'), pathlib.Path('d\U0001F600/f')]


def number_shapes():
    """every number-like spelling of a small grammar, with every digit 0-9 in the leading position:
    sign x mantissa shape x exponent shape, plus the YAML 1.1 integer forms (C05/C09: a string of any of
    these shapes must come back as the same string)"""
    out = []
    for sign in ('', '+', '-'):
        for d in '0123456789':
            for mant in (d, d + '.', '.' + d, d + '.5', d + '_0', d + '0'):
                for exp in ('', 'e1', 'E1', 'e+1', 'e-1', 'e', 'e1x'):
                    out.append(sign + mant + exp)
            for form in ('0x' + d, '0o' + d, '0b' + d, d + ':30', d + ':30.5', '0' + d, d + '__0'):
                out.append(sign + form)
        for mant in ('.', '._', '.inf', '.Inf', '.INF', '.nan', '.NaN', '.NAN', '.iNF', '.infx'):
            for exp in ('', 'e1'):
                out.append(sign + mant + exp)
    seen = set()
    return [x for x in out if not (x in seen or seen.add(x))]


def strings(alpha, maxlen):
    for n in range(0, maxlen + 1):
        for t in itertools.product(alpha, repeat=n):
            yield ''.join(t)


def is_finite(v):
    return not isinstance(v, float) or math.isfinite(v)


# ---------------------------------------------------------------- projection

def params_of(cls):
    sig = inspect.signature(cls.__init__)
    return [n for n in list(sig.parameters)[1:]]


def project(v, json_mode=False):
    """the documented projection to plain data (dates become ISO strings in JSON mode)"""
    if isinstance(v, enum.Enum):
        return apply_sweeteners(type(v), v.name)
    if isinstance(v, bool) or v is None or isinstance(v, (int, float)):
        return v
    if isinstance(v, pathlib.PurePath):
        return str(v)
    if isinstance(v, str) and type(v) is str:
        return v
    if isinstance(v, (datetime.date, datetime.datetime)):
        return v
    if isinstance(v, (list, tuple)):
        return [project(x, json_mode) for x in v]
    if isinstance(v, dict):
        return collections.OrderedDict((project(k, json_mode), project(x, json_mode)) for k, x in v.items())
    if isinstance(v, (collections.UserString, str)) or hasattr(v, '_v'):
        return apply_sweeteners(type(v), str(v))
    cls = type(v)
    if hasattr(v, '_yatiml_attributes'):
        attrs = collections.OrderedDict((k, project(x, json_mode)) for k, x in v._yatiml_attributes().items())
    else:
        attrs = collections.OrderedDict()
        names = params_of(cls)
        for n in names:
            if n != '_yatiml_extra':
                attrs[n] = project(getattr(v, n), json_mode)
        if '_yatiml_extra' in names:
            for k, x in v._yatiml_extra.items():
                attrs[k] = project(x, json_mode)
    return apply_sweeteners(cls, attrs)


def apply_sweeteners(cls, data):
    """sweeten ops of the registered ancestors first, then the class's own (own-body hooks only)"""
    for b in cls.__bases__:
        if '_ops_sweeten' in b.__dict__ or any('_ops_sweeten' in a.__dict__ for a in b.__mro__[1:]):
            data = apply_sweeteners(b, data)
    for op in cls.__dict__.get('_ops_sweeten', []):
        data = ref_sweeten(cls, data, op)
    return data


def kind(x):
    if x is None:
        return 'null'
    if isinstance(x, bool):
        return 'bool'
    if isinstance(x, int):
        return 'int'
    if isinstance(x, float):
        return 'float'
    if isinstance(x, str):
        return 'str'
    return type(x).__name__


def ref_sweeten(cls, data, op):
    k = op[0]
    if k == 'log':
        return data
    if k == 'remove_defaults':
        if not isinstance(data, dict):
            return data
        sig = inspect.signature(cls.__init__)
        # (_yatiml_extra holds the extra attributes, it is not an attribute: a key of that name is an extra like any other)
        defaults = {n: p.default for n, p in sig.parameters.items() if p.default is not p.empty and n != '_yatiml_extra'}
        defaults.update({k_: v for k_, v in getattr(cls, '_yatiml_defaults', {}).items() if k_ in defaults})
        out = collections.OrderedDict()
        for key, val in data.items():
            if key in defaults:
                d = defaults[key]
                if kind(val) in ('null', 'bool', 'int', 'float', 'str') and kind(d) in ('null', 'bool', 'int', 'float', 'str'):
                    same = (kind(val) == kind(d) and val == d) or (
                        kind(val) in ('int', 'float') and kind(d) in ('int', 'float') and val == d)
                    if same:
                        continue
                elif isinstance(val, list) and not val and isinstance(d, list) and not d:
                    continue
            out[key] = val
        return out
    if k == 'stamp':
        # the non-idempotent marker of mc/models.py: n-th stamp of its family gets n, a repeated one +100
        if isinstance(data, dict):
            out = collections.OrderedDict(data)
            if op[1] in out:
                out[op[1]] = out[op[1]] + 100
            else:
                out[op[1]] = 1 + sum(1 for kk in out if isinstance(kk, str) and kk.startswith(op[1][:2]))
            return out
        return data
    if k == 'unders_to_dashes':
        if isinstance(data, dict):
            return collections.OrderedDict((kk.replace('_', '-') if isinstance(kk, str) else kk, v) for kk, v in data.items())
        return data
    if k == 'rename':
        if isinstance(data, dict):
            return collections.OrderedDict((op[2] if kk == op[1] else kk, v) for kk, v in data.items())
        return data
    if k == 'seq_to_map':
        attr, keyattr, valattr = op[1], op[2], op[3]
        if not isinstance(data, dict) or not isinstance(data.get(attr), list):
            return data
        items = data[attr]
        if any(not isinstance(i, dict) or not isinstance(i.get(keyattr), str) for i in items):
            return data
        if len({i[keyattr] for i in items}) != len(items):
            return data
        m = collections.OrderedDict()
        for i in items:
            rest = collections.OrderedDict((kk, v) for kk, v in i.items() if kk != keyattr)
            if valattr is not None and list(rest) == [valattr]:
                m[i[keyattr]] = rest[valattr]
            else:
                m[i[keyattr]] = rest
        out = collections.OrderedDict(data)
        out[attr] = m
        return out
    if k == 'index_to_map':
        attr, keyattr, valattr = op[1], op[2], op[3]
        if not isinstance(data, dict) or not isinstance(data.get(attr), dict):
            return data
        if any(not isinstance(v, dict) for v in data[attr].values()):
            return data
        m = collections.OrderedDict()
        for kk, v in data[attr].items():
            rest = collections.OrderedDict((a, b) for a, b in v.items() if a != keyattr)
            if list(rest) == [valattr]:
                m[kk] = rest[valattr]
            else:
                m[kk] = rest
        out = collections.OrderedDict(data)
        out[attr] = m
        return out
    if k in ('map_to_seq', 'map_to_index'):
        # the savorize-direction helpers used as sweeteners (Python holds a dict keyed by what the YAML items carry inside)
        attr, keyattr, valattr = op[1], op[2], op[3]
        if not isinstance(data, dict) or not isinstance(data.get(attr), dict):
            return data
        inner = data[attr]
        if k == 'map_to_seq' and valattr is None and any(not isinstance(v, dict) for v in inner.values()):
            return data
        items = collections.OrderedDict()
        for kk, v in inner.items():
            if not isinstance(v, dict):
                if valattr is None:
                    items[kk] = v
                    continue
                v = collections.OrderedDict([(valattr, v)])
            it = collections.OrderedDict(v)
            if k == 'map_to_seq' or keyattr not in it:
                it[keyattr] = kk
            items[kk] = it
        out = collections.OrderedDict(data)
        out[attr] = list(items.values()) if k == 'map_to_seq' else items
        return out
    if k == 'attr_to_scalar':
        if isinstance(data, dict) and list(data) == [op[1]]:
            return data[op[1]]
        return data
    if k == 'set_attr_scalar':
        if isinstance(data, dict):
            out = collections.OrderedDict(data)
            out[op[1]] = op[2]
            return out
        return data
    if k == 'set_attr_node':
        if isinstance(data, dict):
            from mc import models, refsem
            out = collections.OrderedDict(data)
            out[op[1]] = refsem.plain(models.norm_tree(op[2]))
            return out
        return data
    if k == 'remove_attr':
        if isinstance(data, dict):
            return collections.OrderedDict((kk, v) for kk, v in data.items() if kk != op[1])
        return data
    if k == 'set_value':
        return op[1]
    raise ValueError('no projection model for sweeten op %r' % (op,))


def to_json_projection(p):
    """YAML projection -> JSON projection (dates as ISO strings)"""
    if isinstance(p, datetime.datetime):
        return p.isoformat()
    if isinstance(p, datetime.date):
        return p.isoformat()
    if isinstance(p, list):
        return [to_json_projection(x) for x in p]
    if isinstance(p, dict):
        return collections.OrderedDict((to_json_projection(k), to_json_projection(v)) for k, v in p.items())
    return p


# ---------------------------------------------------------------- object-graph snapshot (purity)

def snapshot(v, seen=None, depth=0):
    """deep structural snapshot incl. identities, attribute dicts, list/dict contents"""
    if seen is None:
        seen = {}
    if isinstance(v, (int, float, str, bool, type(None), bytes)) and type(v) in (int, float, str, bool, type(None), bytes):
        return ('v', type(v).__name__, hex(v) if type(v) is int else repr(v))      # hex(): no digit limit
    if id(v) in seen:
        return ('ref', seen[id(v)])
    seen[id(v)] = len(seen)
    me = seen[id(v)]
    if depth > 30:
        return ('deep',)
    if isinstance(v, list):
        return ('list', me, [snapshot(x, seen, depth + 1) for x in v])
    if isinstance(v, dict):
        return ('dict', me, type(v).__name__, [(snapshot(k, seen, depth + 1), snapshot(x, seen, depth + 1)) for k, x in v.items()])
    if isinstance(v, (datetime.date, pathlib.PurePath, enum.Enum)):
        return ('atom', me, type(v).__name__, repr(v))
    d = getattr(v, '__dict__', None)
    if d is None and any(hasattr(k, '__slots__') for k in type(v).__mro__):
        d = {n: getattr(v, n) for k in reversed(type(v).__mro__) for n in getattr(k, '__slots__', ()) if hasattr(v, n)}
    extra = repr(str(v)) if isinstance(v, (str, collections.UserString)) else ''
    if isinstance(d, dict):
        return ('obj', me, type(v).__name__, extra, [(k, snapshot(x, seen, depth + 1)) for k, x in d.items()])
    return ('opaque', me, type(v).__name__, repr(v))
