"""C08 - bad input is reported only as RecognitionError or a YAML error.

(1) token soup: every string up to a length bound over a 14-symbol alphabet and every
    string of length <= 3 over the YAML indicators, on six representative load functions;
(2) D(T) of the load catalogue extended with nasty mutations (explicit core tags with
    non-matching content, PyYAML edge spellings, merge keys, duplicate / complex keys) and
    self-referential documents;
(3) models whose constructors, string-like classes, savorize and recognize hooks raise.
Oracle: the exception type leaving load(text).
"""
import itertools

import yaml
import yatiml

from mc import catalog, core, docs, loadcase, models
from mc.docs import M, Q, S

PROPERTY = 'C08'
RULE = ('every text of the bounded universes is passed to the real load function; the only observation is the type '
        'of the exception that leaves it; non-trivial = distinct texts that do not load (rejected or YAML error)')
ASSUMPTIONS = [
    'nesting depth of generated documents <= 6 (the property excludes unbounded nesting)',
    'user hooks raise only the exception kinds of the catalogue (ValueError, KeyError, TypeError, SeasoningError, '
    'RecognitionError)',
]
SOUP = 'a1:- \n[]{},&*!'
INDICATORS = '-?:,[]{}#&*!|>\'"%@`~<=. \n\t'


def BOUNDS(tier):
    return {'soup_alphabet': SOUP, 'soup_maxlen': 4 if tier == 'quick' else 5,
            'soup_maxlen_two_functions': 4 if tier == 'quick' else 6,
            'indicator_alphabet': INDICATORS, 'indicator_maxlen': 3 if tier == 'thorough' else 2,
            'models': len(cat(tier)), 'hook_models': len(hook_models())}


SOUP_MODELS = [
    {'classes': catalog.BASE, 'root': 'any'},
    {'classes': catalog.BASE, 'root': ('dict', 'str', 'int')},
    {'classes': catalog.BASE + [{'name': 'K', 'params': [('a', 'int'), ('b', ('list', 'str'), None)]}], 'root': ('cls', 'K')},
    {'classes': catalog.BASE + [{'name': 'K', 'params': [('a', 'any', None)], 'extra': True}], 'root': ('cls', 'K')},
    {'classes': catalog.BASE + [{'name': 'A', 'kind': 'enum', 'members': ['a', 'b']}], 'root': ('list', ('cls', 'A'))},
    {'classes': catalog.BASE + [{'name': 'K', 'params': [('a', 'int')]}],
     'root': ('union', ['int', ('list', 'any'), ('cls', 'K'), ('dict', ('cls', 'S'), ('opt', 'bool'))])},
]

NASTY = [S('int', 'abc'), S('int', '0x_'), S('int', '0b_'), S('int', '1_'), S('timestamp', 'x'),
         S('timestamp', '2001-13-45'), S('timestamp', '2001-01-01 25:61:61'), S('bool', 'maybe'), S('binary', '!'),
         S('float', 'x'), S('float', '1.2.3'), S('null', 'x'), S('value', '='), S('merge', '<<'),
         S('tag:yaml.org,2002:python/name:os.system', 'x'), S('!Unknown', 'x'), Q([], 'set'), M([], 'omap'),
         Q([S('str', 'a')], 'omap'), Q([S('str', 'a')], 'pairs'), M([(S('str', 'a'), S('int', '1'))], 'set'),
         S('seq', 'x'), S('map', 'x'), Q([], 'str'), M([], 'int'),
         # long spellings: base-60 numbers overflow a float, Python refuses int<->str beyond 4300 digits
         S('float', ':'.join(['1'] * 200)), S('float', '1' + ':59' * 180 + '.5'), S('int', ':'.join(['1'] * 200)),
         S('int', '0x' + 'f' * 4400), S('int', '-0b' + '1' * 15000), S('int', '7' * 4400), S('float', '9' * 4400 + '.0'),
         S('float', '1e' + '9' * 4400)]
NASTY_LONG_FROM = 25


def nasty_mutations(tree):
    out = []
    for path, node in docs.positions(tree):
        for i, n in enumerate(NASTY):
            out.append(('nasty%d' % i, docs.replace(tree, path, n)))
        if node[0] == 'm':
            for mv in (M([(S('str', 'zq'), S('int', '1'))]), S('int', '1'), Q([M([(S('str', 'a'), S('int', '2'))])]),
                       Q([S('int', '1')])):
                out.append(('merge', docs.replace(tree, path, ('m', node[1], node[2] + ((S('merge', '<<'), mv),)))))
            out.append(('nullkey', docs.replace(tree, path, ('m', node[1], node[2] + ((S('null', '~'), S('int', '1')),)))))
            out.append(('mapkey', docs.replace(tree, path, ('m', node[1], node[2] + ((M([]), S('int', '1')),)))))
            for i in range(len(node[2])):
                out.append(('dupkey2', docs.replace(tree, path, ('m', node[1], node[2][:i + 1] + (
                    (node[2][i][0], S('str', 'other')),) + node[2][i + 1:]))))
    return out


def hook_models():
    out = []
    # every exception class with a message, without arguments (bare `raise KeyError`, a failed assert) and with
    # non-string arguments
    for exc in [e + suffix for e in ('ValueError', 'KeyError', 'TypeError', 'RuntimeError', 'IndexError', 'AttributeError',
                                     'AssertionError', 'StopIteration', 'OSError', 'ZeroDivisionError', 'UserDefinedError',
                                     'LookupError') for suffix in ('', '!', '#')]:
        out.append(('ctor-raises', {'classes': [{'name': 'K', 'params': [('a', 'int')], 'raises': exc}], 'root': ('cls', 'K')}))
        out.append(('ctor-raises', {'classes': [{'name': 'K', 'params': [('a', 'int')], 'raises': exc}],
                                    'root': ('dict', 'str', ('list', ('cls', 'K')))}))
        for kind in ('userstring', 'strsub', 'ystring'):
            out.append(('strlike-raises', {'classes': [{'name': 'W', 'kind': kind, 'raises': exc}], 'root': ('cls', 'W')}))
            out.append(('strlike-raises', {'classes': [{'name': 'W', 'kind': kind, 'raises': exc}],
                                           'root': ('dict', ('cls', 'W'), 'int')}))
    for exc in ('SeasoningError', 'RecognitionError', 'SeasoningError!', 'SeasoningError#', 'RecognitionError!'):
        out.append(('savorize-raises', {'classes': [{'name': 'K', 'params': [('a', 'int')],
                                                     'hooks': {'savorize': [('raise', exc)]}}], 'root': ('cls', 'K')}))
        out.append(('savorize-raises', {'classes': [{'name': 'A', 'params': [('a', 'int')], 'hooks': {'savorize': [('raise', exc)]}},
                                                    {'name': 'B', 'bases': ['A'], 'params': [('a', 'int'), ('b', 'int')]}],
                                        'root': ('list', ('cls', 'A'))}))
        out.append(('savorize-raises', {'classes': [{'name': 'E2', 'kind': 'enum', 'members': ['a', 'b'],
                                                     'hooks': {'savorize': [('raise', exc)]}}], 'root': ('cls', 'E2')}))
        out.append(('savorize-raises', {'classes': [{'name': 'W', 'kind': 'userstring',
                                                     'hooks': {'savorize': [('raise', exc)]}}], 'root': ('cls', 'W')}))
    for exc in ('RecognitionError!', 'RecognitionError#'):
        out.append(('recognize-raises', {'classes': [{'name': 'K', 'params': [('a', 'int')],
                                                      'hooks': {'recognize': [('raise', exc)]}}], 'root': ('list', ('cls', 'K'))}))
    out.append(('recognize-raises', {'classes': [{'name': 'K', 'params': [('a', 'int')],
                                                  'hooks': {'recognize': [('raise', 'RecognitionError')]}}], 'root': ('cls', 'K')}))
    out.append(('recognize-raises', {'classes': [{'name': 'K', 'params': [('a', 'int')],
                                                  'hooks': {'recognize': [('raise', 'RecognitionError')]}}],
                                     'root': ('union', ['int', ('cls', 'K')])}))
    # hooks that look at attribute VALUES (discriminators, conversions): the scalar may be unparsable
    for val in (1, 'k1', 1.5, True, None, 0):
        for op in ('require_attr_value', 'require_attr_value_not'):
            out.append(('recognize-reads-value', {'classes': [{'name': 'K', 'params': [('kind', 'any', None), ('x', 'int', 0)],
                                                               'hooks': {'recognize': [(op, 'kind', val)]}}],
                                                  'root': ('list', ('cls', 'K'))}))
    for t in ('int', 'float', 'bool', 'date', ('cls', 'In'), ('list', 'int')):
        out.append(('recognize-reads-value', {'classes': catalog.BASE + [{'name': 'K', 'params': [('kind', 'any', None), ('x', 'int', 0)],
                                                                          'hooks': {'recognize': [('require_attr', 'kind', t)]}}],
                                              'root': ('cls', 'K')}))
    for op in (('attr_get_value', 'kind'), ('attr_has_type', 'kind', 'int'), ('remove_defaults',), ('value_roundtrip', 'kind')):
        for rec in (None, [('permissive',)]):
            hooks = {'savorize': [('only_mapping',), op]}
            if rec:
                hooks['recognize'] = rec
            out.append(('savorize-reads-value', {'classes': [{'name': 'K', 'params': [('kind', 'any', 5), ('x', 'int', 0)], 'hooks': hooks}],
                                                 'root': ('dict', 'str', ('cls', 'K'))}))
    # structural helpers behind a permissive recogniser (the attribute can then be of any shape)
    for op in (('map_to_seq', 'kind', 'id', 'v'), ('seq_to_map', 'kind', 'id', 'v'), ('index_to_map', 'kind', 'id', 'v'),
               ('map_to_index', 'kind', 'id', 'v'), ('map_to_seq', 'kind', 'id', None), ('dashes_to_unders',), ('unders_to_dashes',),
               ('rename', 'kind', 'x')):
        out.append(('savorize-helper-permissive', {'classes': [{'name': 'K', 'params': [('kind', 'any', None), ('x', 'any', None)],
                                                                'hooks': {'savorize': [('only_mapping',), op], 'recognize': [('permissive',)]},
                                                                'extra': True}],
                                                   'root': ('cls', 'K')}))
    # the helpers that document no "use only if is_mapping()" precondition, called on whatever the permissive recogniser
    # of docs/advanced_features.rst ("the following will also work") lets through: scalars and sequences too
    for op in (('attr_has_type', 'kind', 'str'), ('attr_has_type', 'kind', 'list'), ('map_to_seq', 'kind', 'id', 'v'),
               ('seq_to_map', 'kind', 'id', 'v'), ('index_to_map', 'kind', 'id', 'v'), ('map_to_index', 'kind', 'id', 'v'),
               ('dashes_to_unders',), ('unders_to_dashes',)):
        for root in (('cls', 'K'), ('list', ('cls', 'K'))):
            out.append(('savorize-helper-any-node', {'classes': [{'name': 'K', 'params': [('kind', 'any', None), ('x', 'any', None)],
                                                                  'hooks': {'savorize': [op], 'recognize': [('permissive',)]}}],
                                                     'root': root}))
    # parsed-class style (docs/recipes.rst): the node is a scalar, the hook reads it with get_value() after is_scalar()
    for root in (('cls', 'K'), ('dict', 'str', ('cls', 'K'))):
        out.append(('savorize-scalar-value', {'classes': [{'name': 'K', 'params': [('v', 'any')],
                                                           'hooks': {'recognize': [('require_scalar', [])],
                                                                     'savorize': [('scalar_get_value',), ('scalar_to_attr', 'v')]},
                                                           'docs': [S('str', 'a'), S('int', '7'), S('float', '1.5'), S('bool', 'true'),
                                                                    S('null', '~'), S('timestamp', '2001-02-03'), S('value', '='),
                                                                    S('merge', '<<'), S('binary', 'aGk=')]}],
                                              'root': root}))
    # savorize helpers that fail on the node they get
    for op in (('get_attr', 'missing'), ('map_to_seq', 'a', 'id', 'v'), ('seq_to_map', 'a', 'id', 'v'),
               ('seq_to_map', 'a', 'id', None), ('index_to_map', 'a', 'id', 'v'), ('map_to_index', 'a', 'id', 'v'),
               ('dashes_to_unders',), ('set_value', 1), ('remove_attr', 'a'), ('rename', 'a', 'b')):
        out.append(('savorize-helper', {'classes': [{'name': 'K', 'params': [('a', 'any', None), ('b', 'any', None)],
                                                     'hooks': {'savorize': [op]}, 'extra': True}], 'root': ('cls', 'K')}))
    return out


_CAT = {}


def cat(tier):
    if tier not in _CAT:
        _CAT[tier] = catalog.all_load_models(tier)
    return _CAT[tier]


def units(tier):
    b = BOUNDS(tier)
    out = []
    for mi in range(len(SOUP_MODELS)):
        L = b['soup_maxlen_two_functions'] if mi in (0, 2) else b['soup_maxlen']
        out.append(('soup', mi, '', 1, SOUP))
        for a, c in itertools.product(SOUP, repeat=2):
            out.append(('soup', mi, a + c, L, SOUP))
        out.append(('soup', mi, '', 1, INDICATORS))
        for a in INDICATORS:
            out.append(('soup', mi, a, b['indicator_maxlen'], INDICATORS))
    for mi in range(len(SOUP_MODELS)):
        out.append(('lexical', mi))
    for i in range(len(unsupported_models())):
        out.append(('unsupported', i))
    for i in range(len(cat(tier))):
        out.append(('docs', i))
    for i in range(len(hook_models())):
        out.append(('hooks', i))
    return out


_CASES = {}


def soup_case(mi):
    if mi not in _CASES:
        _CASES[mi] = loadcase.Case(SOUP_MODELS[mi])
    return _CASES[mi]


def short(text):
    return repr(text) if len(text) <= 160 else '%r...(%d characters)' % (text[:120], len(text))


def observe(case, text, res, kind, spec):
    o = case.impl(text)
    res.traces += 1
    if o[0] == 'exc':
        e = o[1]
        res.violation('C08:%s:%s' % (loadcase.exc_key(e), ':'.join(kind.split(':')[:2])),
                      '%s escapes load(%s) [root %s]: %s' % (type(e).__name__, short(text), spec['root'], str(e)[:120]),
                      loadcase.payload(spec, text, dockind=kind))
        res.hist['escaped:' + type(e).__name__] += 1
    else:
        res.hist[o[0] if o[0] != 'yamlerr' else 'yamlerr:' + o[1]] += 1
        if o[0] != 'ok' and kind != 'soup':
            res.sample({'root': str(spec['root']), 'kind': kind, 'text': short(text), 'outcome': o[0] if o[0] != 'yamlerr' else o[1]}, 2)
    return o[0]


def cyclic_texts(case, tree):
    """self-referential variants of a document: every collection put into each of its own child positions"""
    out = []
    for path, node in docs.positions(tree):
        if node[0] == 's' or docs.is_key_path(path):
            continue
        for variant in range(3):
            root = models.to_node(tree)
            target = root
            for h in path:
                target = target.value[h] if isinstance(h, int) else target.value[h[0]][h[1]]
            one = yaml.ScalarNode(models.P + 'int', '1')
            if variant == 0:        # the collection as its own item / value
                if isinstance(target, yaml.SequenceNode):
                    target.value.append(target)
                else:
                    target.value.append((yaml.ScalarNode(models.P + 'str', 'self'), target))
            elif variant == 1:      # ... as (part of) one of its own keys
                if isinstance(target, yaml.SequenceNode):
                    target.value.append(yaml.MappingNode(models.P + 'map', [(target, one)]))
                else:
                    target.value.append((target, one))
            else:
                if isinstance(target, yaml.SequenceNode):
                    target.value.append(yaml.MappingNode(models.P + 'map', [(yaml.SequenceNode(models.P + 'seq', [target]), one)]))
                else:
                    target.value.append((yaml.SequenceNode(models.P + 'seq', [target]), one))
            try:
                out.append(case.R.serialize(root))
            except RecursionError:
                pass
    return out


def unsupported_models():
    """class models with annotations outside the supported type language (PEP 604 unions, forward references, string
    annotations, built-in generics, Tuple, Set, Literal, a TypeVar, datetime): the model is at fault, but WHICH
    exception the user sees still depends on the document - '{}' loads or is rejected, 'a: 1' reaches the annotation"""
    import datetime
    import typing
    TV = typing.TypeVar('TV')
    anns = [('pep604', int | None), ('forwardref', typing.Optional['K']), ('string', 'int'), ('builtin-generic', list[int]),
            ('tuple', typing.Tuple[int, int]), ('set', typing.Set[int]), ('literal', typing.Literal[1, 2]), ('typevar', TV),
            ('datetime', datetime.datetime), ('bytes', bytes), ('callable', typing.Callable[[], int])]
    # (no typing generics OVER such annotations: typing caches List[int | str] and hands the same object out for a later
    # List[Union[int, str]] - equal keys - which would leak this unit's model into every later unit of the process)
    out = []
    for name, ann in anns:
        for required in (True, False):
            def build(ann=ann, required=required):
                if required:
                    def __init__(self, a: ann, x: int = 0) -> None:
                        pass
                else:
                    def __init__(self, x: int = 0, a: ann = None) -> None:
                        pass
                K = type('K', (), {'__init__': __init__})
                return K
            out.append((name + (':required' if required else ':optional'), build))
    return out


UNSUP_DOCS = None


def unsupported_docs():
    global UNSUP_DOCS
    if UNSUP_DOCS is None:
        r = docs.Renderer(yatiml.load_function().loader)
        seen = []
        for t in docs.tiny(3, ('a', 'x')):
            try:
                seen.append(r.render(t))
            except Exception:     # noqa
                pass
        vals = [S('int', '1'), S('str', 's'), S('null', '~'), Q([S('int', '1')]), M([(S('str', 'x'), S('int', '1'))]), Q([]),
                M([(S('str', 'a'), S('int', '1'))]), S('float', '1.5'), S('bool', 'true'), S('timestamp', '2001-01-01'),
                Q([S('int', '1'), S('int', '2')]), S('!K', 'x'), M([], '!K')]
        for v in vals:
            for extra in ((), ((S('str', 'x'), S('int', '2')),), ((S('str', 'next'), M([(S('str', 'a'), v)])),)):
                seen.append(r.render(M([(S('str', 'a'), v)] + list(extra))))
            seen.append(r.render(v))
        UNSUP_DOCS = list(dict.fromkeys(seen))
    return UNSUP_DOCS


HEXD = '01789aDfF'


def lexical_texts(tier):
    """spellings below the level of nodes (escapes in double-quoted scalars, directives), which no rendered
    document contains: every \\x.. over HEXD^2, every \\u.... with two free digits, every \\U........ with three free
    leading digits, each as a whole document, as a mapping value and as a key; %YAML / %TAG directives with
    every combination of odd version parts"""
    esc = ['\\x' + a + b for a in HEXD for b in HEXD]
    esc += ['\\u' + a + b + t for a in HEXD for b in HEXD for t in ('00', 'fF')]
    esc += ['\\U' + a + b + c + t for a in '01fF' for b in '01fF' for c in HEXD for t in ('00000', 'FFFFF', '0fffe')]
    esc += ['\\U0011' + t for t in ('0000', 'ffff')] + ['\\' + c for c in '0abtnvfre "/\\N_LPxuUzq\n']
    for e in esc:
        yield '"%s"' % e
        yield 'a: "x%s"' % e
        yield '"%s": 1' % e
        yield '- ["%s"]' % e
    parts = ['1', '2', '0', '', 'a', '-1', '1' * 4400, '0' * 4400 + '1']
    for a in parts:
        for b in parts:
            for sep in ('.', ''):
                yield '%%YAML %s%s%s\n---\na' % (a, sep, b)
                yield '%%YAML %s%s%s\n--- {a: 1}' % (a, sep, b)
    for h in ('!', '!!', '!e!', '', 'e', '!e'):
        for pfx in ('!', 'tag:x,2000:', '', '%', '%zz', '%41', '!' + '%41' * 3, '<>', '%ff', '%c3%28'):
            yield '%%TAG %s %s\n--- %sa 1' % (h, pfx, h if h.endswith('!') else '!')
    yield '%YAML 1.1\n%YAML 1.1\n---\na'
    yield '%FOO ' + 'x' * 10 + '\n---\na'


def run_unit(unit, tier):
    res = core.Result()
    if unit[0] == 'unsupported':
        name, build = unsupported_models()[unit[1]]
        K = build()
        for root_name, root in (('K', K), ('List[K]', __import__('typing').List[K]), ('Dict[str, K]', __import__('typing').Dict[str, K])):
            try:
                load = yatiml.load_function(root, K)
            except Exception as e:     # noqa   (a model refused when the function is made is not input-dependent)
                res.hist['model-refused-at-creation'] += 1
                continue
            for text in unsupported_docs():
                for t2 in ([text] if root_name == 'K' else ['- ' + text.replace('\n', '\n  ').rstrip() + '\n', 'k:\n  ' + text.replace('\n', '\n  ').rstrip() + '\n']):
                    res.states += 1
                    res.transitions += 1
                    res.traces += 1
                    try:
                        load(t2)
                        res.hist['ok'] += 1
                    except (yatiml.RecognitionError, yaml.YAMLError):
                        res.hist['rej'] += 1
                        res.nontrivial += 1
                    except Exception as e:     # noqa
                        res.hist['escaped:' + type(e).__name__] += 1
                        res.violation('C08:%s:unsupported-annotation:%s' % (loadcase.exc_key(e), name.split(':')[0]),
                                      '%s escapes load(%s) for a class whose parameter is annotated %s [root %s]: %s' % (
                                          type(e).__name__, short(t2), name, root_name, str(e)[:120]),
                                      {'unsupported': unit[1], 'root': root_name, 'text': t2})
        return res
    if unit[0] == 'lexical':
        case = soup_case(unit[1])
        for s in lexical_texts(tier):
            res.states += 1
            res.transitions += 1
            if observe(case, s, res, 'lexical', SOUP_MODELS[unit[1]]) != 'ok':
                res.nontrivial += 1
        return res
    if unit[0] == 'soup':
        _, mi, prefix, L, alpha = unit
        case = soup_case(mi)
        if prefix == '':
            strings = [''] + list(alpha)
        else:
            strings = (prefix + ''.join(t) for n in range(0, L - len(prefix) + 1) for t in itertools.product(alpha, repeat=n))
        seen_fail = 0
        for s in strings:
            res.states += 1
            res.transitions += 1
            if observe(case, s, res, 'soup', SOUP_MODELS[mi]) != 'ok':
                seen_fail += 1
                if len(s) >= 3:
                    res.sample({'root': str(SOUP_MODELS[mi]['root']), 'kind': 'soup', 'text': s}, 1)
        res.nontrivial += seen_fail
        return res
    if unit[0] == 'docs':
        fam, spec = cat(tier)[unit[1]]
        case = loadcase.Case(spec)
        trees = docs.valid(spec, spec['root'])
        lim = 4 if tier == 'quick' else 12
        seen = set()
        for t in trees[:lim]:
            for kind, mt in nasty_mutations(t):
                if mt in seen:
                    continue
                seen.add(mt)
                res.states += 1
                res.transitions += 1
                try:
                    text = case.R.render(mt)
                except (yaml.YAMLError, AttributeError, TypeError):
                    res.hist['unrenderable'] += 1
                    continue
                if kind.startswith('nasty'):
                    nz = NASTY[int(kind[5:])]
                    kind = 'nasty:%s:%s' % (nz[1].split(':')[-1], nz[2][:16] if nz[0] == 's' else nz[0])
                if observe(case, text, res, kind, spec) != 'ok':
                    res.nontrivial += 1
            for text in cyclic_texts(case, t):
                res.states += 1
                res.transitions += 1
                if observe(case, text, res, 'cycle', spec) != 'ok':
                    res.nontrivial += 1
        # the ordinary document set too (mutations incl. duplicate/complex/int keys, all tags)
        for kind, site, tree in loadcase.document_set(spec, case, tier, tags=docs.tag_alphabet(['K', 'In'], small=(tier == 'quick')),
                                                      n_mut=4 if tier == 'quick' else 12, tiny_n=3):
            res.states += 1
            res.transitions += 1
            try:
                text = case.R.render(tree)
            except yaml.YAMLError:
                continue
            if observe(case, text, res, 'D(T):' + kind.split(':')[0], spec) != 'ok':
                res.nontrivial += 1
        return res
    fam, spec = hook_models()[unit[1]]
    case = loadcase.Case(spec)
    # valid documents with every nasty scalar / collection at every node, and structured attribute values
    base = docs.valid(spec, spec['root'])[:4]
    shapes = [Q([M([(S('str', 'id'), S('str', 'a')), (S('str', 'v'), S('int', '1'))])]), M([(S('str', 'a'), M([(S('str', 'v'), S('int', '1'))]))]),
              M([(Q([S('str', 'a')]), S('int', '1'))]), M([(S('str', 'a'), S('int', '1')), (M([]), M([]))]), Q([S('int', '1'), Q([])]),
              M([(S('int', '1'), M([(S('str', 'id'), S('int', '2'))]))])]
    extra_trees = []
    for t in base:
        for path, node in docs.positions(t):
            if not docs.is_key_path(path):
                for sh in shapes:
                    extra_trees.append(('shape', docs.replace(t, path, sh)))
    seen = set()
    for kind, mt in [x for t in base for x in nasty_mutations(t)] + extra_trees:
        if mt in seen:
            continue
        seen.add(mt)
        res.states += 1
        res.transitions += 1
        try:
            text = case.R.render(mt)
        except (yaml.YAMLError, AttributeError, TypeError):
            res.hist['unrenderable'] += 1
            continue
        if observe(case, text, res, fam + ':' + kind[:5], spec) != 'ok':
            res.nontrivial += 1
    for kind, site, tree in loadcase.document_set(spec, case, tier, tags=['!K', '!Unknown'], tiny_n=3):
        res.states += 1
        res.transitions += 1
        try:
            text = case.R.render(tree)
        except yaml.YAMLError:
            continue
        if observe(case, text, res, fam, spec) != 'ok':
            res.nontrivial += 1
    res.hist['hook-models'] += 1
    return res


def finish(total, tier):
    if total.hist['ok'] < 1000 or total.hist['rej'] < 1000:
        raise core.Vacuous('too few loads/rejections: %r' % dict(total.hist))


def replay(payload):
    if 'unsupported' in payload:
        import typing
        name, build = unsupported_models()[payload['unsupported']]
        K = build()
        root = {'K': K, 'List[K]': typing.List[K], 'Dict[str, K]': typing.Dict[str, K]}[payload['root']]
        try:
            yatiml.load_function(root, K)(payload['text'])
        except (yatiml.RecognitionError, yaml.YAMLError) as e:
            return False, 'load(%r) -> %s' % (payload['text'], type(e).__name__)
        except Exception as e:     # noqa
            return True, '%s escapes load(%r): %s' % (type(e).__name__, payload['text'], e)
        return False, 'load(%r) returns' % payload['text']
    case = loadcase.Case(payload['spec'])
    o = case.impl(payload['text'])
    if o[0] == 'exc':
        return True, '%s escapes load(%r): %s' % (type(o[1]).__name__, payload['text'], o[1])
    return False, 'load(%r) -> %s' % (payload['text'], o[0])
