"""C03 - polymorphic positions resolve to the unique most-derived match, never a guess.

Every rooted inheritance DAG with <= 3/4 classes (each subclass adding nothing / a required
/ an optional parameter, at most one abstract and one unregistered class), discriminating
recognisers, Union/Optional types over the classes, enum-vs-scalar unions; documents: one
per subset of the parameter names with right and wrong value kinds, with no tag, !K for
every class and !Unknown; ALL permutations of registration order and of Union members.
Oracle: reference M/tag rule (mc/refsem.py) + never instantiating abstract/unregistered
classes + permutation invariance.
"""
import itertools

import yaml
import yatiml

from mc import catalog, core, docs, loadcase, models
from mc.docs import M, Q, S
from mc.loadcase import eqv, show
from mc.models import LOG

PROPERTY = 'C03'
RULE = ('choice tree: hierarchy (all DAG shapes x parameter additions x abstract x unregistered choices) x expected type '
        '(root, Optional, Unions) x document (parameter subsets x value kinds x tags) x permutation of registration '
        'order / Union members; each leaf is loaded with the real load function and compared with the reference rule '
        'and with the other permutations; non-trivial = documents that load, or that are rejected as ambiguous/'
        'tag-conflicting')
ASSUMPTIONS = [
    'a tag naming a concrete matching class of the hierarchy selects that class (calibration K3, pinned by the suite)',
    'where a class is separated from the expected type by an unregistered intermediate it is not a candidate',
]


def BOUNDS(tier):
    return {'max_classes': 3 if tier == 'quick' else 4,
            'permutations': 'all registration orders (<= 24) for the root and Optional positions and for Unions over <= 3 classes; '
                            'identity and reversed order for Union positions of four-class models; both Union member orders always',
            'models': len(cat(tier))}


def discriminating_models(tier='quick'):
    out = []
    for shape in ('fork2', 'fork3', 'chainfork'):
        n = len(catalog.SHAPES[shape])
        spec = catalog.hierarchy(shape, ['none'] * (n - 1))
        for i, c in enumerate(spec['classes']):
            c['params'] = [('x', 'int'), ('kind', 'str', 'k0')]
            if i > 0:
                c['hooks'] = {'recognize': [('require_attr_value', 'kind', 'k%d' % i)]}
        out.append(('discr-' + shape, spec))
        spec2 = {'classes': [dict(c) for c in spec['classes']], 'root': spec['root']}
        spec2['classes'][1] = dict(spec2['classes'][1], hooks={'recognize': [('require_attr', 'x')]})
        out.append(('discr2-' + shape, spec2))
    # a custom recogniser on exactly one class of the hierarchy; its descendants are auto-recognised
    for shape in ('chain2', 'chain3', 'fork2') + (('chainfork',) if tier == 'thorough' else ()):
        n = len(catalog.SHAPES[shape])
        for i in range(n):
            for op in (('require_attr', 'x'), ('require_attr_value', 'x', 1), ('require_mapping',)):
                spec = catalog.hierarchy(shape, ['req'] * (n - 1))
                spec['classes'][i]['hooks'] = {'recognize': [op]}
                out.append(('onerec-' + shape, spec))
    return out


def enum_union_models():
    out = []
    en = {'name': 'En', 'kind': 'enum', 'members': ['true', 'False', 'red', 'a']}
    ws = {'name': 'Ws', 'kind': 'userstring'}
    for members in (['bool', ('cls', 'En')], ['str', ('cls', 'En')], ['int', ('cls', 'En')],
                    ['bool', 'str'], [('cls', 'Ws'), ('cls', 'En')], ['buf', 'bool', 'int'],
                    ['bool', ('cls', 'En'), 'int'], [('cls', 'Ws'), 'int', 'none']):
        out.append(('enum-union', {'classes': [en, ws], 'root': ('union', members)}))
        out.append(('enum-union', {'classes': [en, ws], 'root': ('list', ('union', members))}))
        out.append(('enum-union', {'classes': [en, ws, {'name': 'K', 'params': [('u', ('union', members))]}],
                                   'root': ('cls', 'K')}))
    # classes written as a scalar by the documented recipes (a recogniser asking for a string, a savorize building the
    # mapping): two of them in a Union are ambiguous for every string, only the explicit tag can select one
    def parsed(name, types=('str',)):
        return {'name': name, 'params': [('v', 'any')],
                'hooks': {'recognize': [('require_scalar', list(types))], 'savorize': [('scalar_to_attr', 'v')]}}
    for members in ([('cls', 'P1'), ('cls', 'P2')], [('cls', 'P1'), 'int'], [('cls', 'P1'), ('cls', 'Pn')], [('cls', 'P1'), ('cls', 'En')]):
        cl = [en, ws, parsed('P1'), parsed('P2'), parsed('Pn', ('int', 'str'))]
        out.append(('enum-union-parsed', {'classes': cl, 'root': ('union', members)}))
        out.append(('enum-union-parsed', {'classes': cl, 'root': ('list', ('union', members))}))
    return out


_CAT = {}


def cat(tier):
    if tier not in _CAT:
        c = [('hier-' + n, s) for n, s in catalog.hierarchy_models(3 if tier == 'quick' else 4)]
        # selected five-class shapes (all 120 registration orders, root position only)
        for shape in ('diamondx', 'diamondy', 'diamondz'):
            for adds in (['none'] * 4, ['none', 'none', 'none', 'req'], ['opt', 'none', 'none', 'none']):
                c.append(('hier5-' + shape, catalog.hierarchy(shape, adds, None, None)))
        if tier == 'quick':
            # a slice of the four-class shapes (the diamond and the three-way fork need four classes)
            for shape in ('diamond', 'fork3', 'chainfork'):
                for adds in (['req'] * 3, ['req', 'opt', 'none']):
                    c.append(('hier4-' + shape, catalog.hierarchy(shape, adds, None, None)))
        c += discriminating_models(tier) + enum_union_models()
        _CAT[tier] = c
    return _CAT[tier]


def units(tier):
    return list(range(len(cat(tier))))


def docs_for(spec):
    names = []
    for c in spec['classes']:
        for p in c.get('params', []):
            if p[0] not in names:
                names.append(p[0])
    out = []
    if not names:      # enum/union models
        for v in docs.ONE_PER_KIND + [S('str', 'true'), S('str', 'red'), S('bool', 'False'), S('str', 'False'),
                                      S('str', 'zzz'), Q([]), M([])]:
            out.append(v)
            out.append(Q([v, S('str', 'a')]))
            out.append(M([(S('str', 'u'), v)]))
        return out
    for r in range(len(names) + 1):
        for sub in itertools.combinations(names, r):
            vals = []
            for k in sub:
                if k == 'kind':
                    vals.append([S('str', 'k%d' % i) for i in range(4)] + [S('int', '1')])
                else:
                    vals.append([S('int', '1')])
            for combo in itertools.product(*vals):
                out.append(M([(S('str', k), v) for k, v in zip(sub, combo)]))
            if sub:
                # one wrong value kind at the last key
                out.append(M([(S('str', k), S('int', '1')) for k in sub[:-1]] + [(S('str', sub[-1]), S('str', 'wrong'))]))
    out += [S('int', '1'), Q([]), S('null', '~')]
    return out


def expected_types(spec, unions=True):
    """root, Optional[root] and every Union of two classes of the model (both member orders)"""
    root = models.T(spec['root'])
    out = [[root]]
    if root[0] == 'cls':
        out.append([('opt', root)])
        if not unions:
            return out
        plain = [c['name'] for c in spec['classes'] if c.get('registered', True) and c.get('kind', 'plain') == 'plain']
        for a, b in itertools.combinations(plain, 2):
            out.append([('union', (('cls', a), ('cls', b))), ('union', (('cls', b), ('cls', a)))])
        # a class next to a built-in member that matches the same nodes: only a tag can tell them apart
        for other in (('dict', 'str', 'int'), 'any'):
            out.append([('union', (root, other)), ('union', (other, root))])
    elif root[0] == 'union':
        out = [[('union', tuple(p)) for p in itertools.permutations(root[1])]]
    elif root[0] == 'list' and root[1][0] == 'union':
        out = [[('list', ('union', tuple(p))) for p in itertools.permutations(root[1][1])]]
    return out


def outcome_key(o):
    if o[0] == 'ok':
        return ('ok', o[1])
    if o[0] == 'exc':
        return ('exc', type(o[1]).__name__)
    return (o[0],)


def same_outcome(a, b):
    if a[0] != b[0]:
        return False
    if a[0] == 'ok':
        return eqv(a[1], b[1])
    return True


def run_unit(unit, tier):
    res = core.Result()
    fam, spec = cat(tier)[unit]
    case = loadcase.Case(spec)
    b = case.b
    unreg = {c['name'] for c in spec['classes'] if not c.get('registered', True)}
    abstract = {c['name'] for c in spec['classes'] if c.get('abstract')}
    tags = [None] + ['!' + c['name'] for c in spec['classes']] + ['!Unknown']
    if not fam.startswith('enum-union'):
        # core tags that contradict the node ("a tag naming an incompatible ... class makes the load fail") and the one
        # that says what the node is anyway
        tags += ['!!int', '!!str', '!!null', '!!seq', '!!map']
    trees = docs_for(spec)
    perms = list(itertools.permutations(range(len(b.registered))))
    loads = {}
    all_perms = perms
    for variants in expected_types(spec, unions=not fam.startswith(('onerec', 'hier4', 'hier5'))):
        # with four classes the Union positions are explored under the identity and the reversed registration order
        # only (both member orders); the root and Optional positions under all 24 orders
        if len(all_perms) > 6 and variants[0][0] == 'union':
            perms = [all_perms[0], all_perms[-1]]
        else:
            perms = all_perms
        # with a K-member model the K-member Union orders are the permutations explored
        for d in trees:
            for tg in tags:
                if tg is not None and d[0] == 'q':
                    continue
                if tg is not None and d[0] == 's' and not fam.startswith('enum-union'):
                    continue
                # class tags on mappings; in the enum / string-like models on scalars too ('!En red')
                t = d if tg is None else (d[0], tg, d[2])
                text, back = case.R.checked(t)
                if text is None:
                    res.hist['render-mismatch'] += 1
                    continue
                res.states += 1
                first = None
                for texpr in variants:
                    T = models.type_of(b, texpr)
                    for perm in perms:
                        res.transitions += 1
                        load = loads.get((texpr, perm))
                        if load is None:
                            load = loads[(texpr, perm)] = yatiml.load_function(T, *[b.registered[i] for i in perm])
                        del LOG[:]
                        try:
                            o = ('ok', load(text))
                        except yatiml.RecognitionError as e:
                            o = ('rej', str(e))
                        except yaml.YAMLError as e:
                            o = ('yamlerr', type(e).__name__)
                        except Exception as e:     # noqa
                            o = ('exc', e)
                        res.traces += 1
                        inits = [e for e in LOG if e[0] == 'init']
                        bad = [e[1] for e in inits if e[1] in unreg or e[1] in abstract]
                        if bad:
                            res.violation('C03:instantiated-%s:%s' % ('unregistered' if bad[0] in unreg else 'abstract', fam),
                                          'class %s was instantiated for %r as %s' % (bad[0], text, texpr),
                                          loadcase.payload(spec, text, type=texpr, order=list(perm)))
                        if first is None:
                            first = (o, texpr, perm)
                            # reference comparison once per document (first permutation)
                            case.ref.reg = list(b.registered)
                            try:
                                ro = ('ok', case.ref.load(back, T))
                            except loadcase.refsem.Reject as e:
                                ro = ('rej', str(e))
                            except loadcase.refsem.CtorFail as e:
                                ro = ('rej', str(e))
                            agree = (o[0] == ro[0] == 'ok' and eqv(o[1], ro[1])) or (o[0] in ('rej', 'yamlerr') and ro[0] == 'rej')
                            if o[0] == 'ok':
                                res.hist['loaded'] += 1
                                res.nontrivial += 1
                                res.sample({'model': models.source_of(spec)[:-1], 'type': str(texpr), 'text': text,
                                            'class': type(o[1]).__name__}, 2)
                            elif o[0] == 'rej':
                                amb = 'Could not determine' in o[1]
                                res.hist['rejected-ambiguous' if amb else ('rejected-tag' if 'tag here' in o[1] else 'rejected')] += 1
                                if amb or 'tag here' in o[1]:
                                    res.nontrivial += 1
                            else:
                                res.hist[o[0]] += 1
                            if not agree:
                                res.violation('C03:%s-vs-ref-%s:%s' % (o[0], ro[0], fam),
                                              'expected type %s, document %r: impl %s, reference %s' % (
                                                  texpr, text, show(o[1]) if o[0] == 'ok' else o[0] + ':' + show(o[1])[:150],
                                                  show(ro[1])),
                                              loadcase.payload(spec, text, type=texpr, order=list(perm)))
                        elif not same_outcome(first[0], o):
                            res.violation('C03:order-dependent:%s' % fam,
                                          'document %r: %s with order %s gives %s, %s with order %s gives %s' % (
                                              text, first[1], first[2], show(first[0][1])[:120] if first[0][0] == 'ok' else first[0][0],
                                              texpr, perm, show(o[1])[:120] if o[0] == 'ok' else o[0]),
                                          loadcase.payload(spec, text, type=texpr, order=list(perm), type0=first[1], order0=list(first[2])))
    res.hist['models:' + fam.split('-')[0]] += 1
    return res


def finish(total, tier):
    for k in ('loaded', 'rejected-ambiguous', 'rejected-tag', 'rejected'):
        if total.hist[k] < 50:
            raise core.Vacuous('outcome class %s reached only %d times' % (k, total.hist[k]))


def replay(payload):
    spec = payload['spec']
    case = loadcase.Case(spec)
    b = case.b
    outs = []
    for texpr, order in ((payload['type'], payload['order']), (payload.get('type0', payload['type']), payload.get('order0', payload['order']))):
        T = models.type_of(b, texpr)
        load = yatiml.load_function(T, *[b.registered[i] for i in order])
        del LOG[:]
        try:
            o = ('ok', load(payload['text']))
        except yatiml.RecognitionError as e:
            o = ('rej', str(e))
        except Exception as e:     # noqa
            o = ('exc', e)
        outs.append((o, [e[1] for e in LOG if e[0] == 'init']))
    back = models.view(case.R.compose(payload['text']))
    try:
        ro = ('ok', case.ref.load(back, models.type_of(b, payload['type'])))
    except (loadcase.refsem.Reject, loadcase.refsem.CtorFail) as e:
        ro = ('rej', str(e))
    o = outs[0][0]
    agree = (o[0] == ro[0] == 'ok' and eqv(o[1], ro[1])) or (o[0] in ('rej', 'yamlerr') and ro[0] == 'rej')
    unreg = {c['name'] for c in spec['classes'] if not c.get('registered', True) or c.get('abstract')}
    viol = (not agree) or (not same_outcome(outs[0][0], outs[1][0])) or any(n in unreg for n in outs[0][1])
    return viol, 'impl %s / other order %s / reference %s / constructed %s' % (
        show(outs[0][0][1])[:150], show(outs[1][0][1])[:150], show(ro[1])[:150], outs[0][1])
