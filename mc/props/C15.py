"""C15 - structural seasoning transforms are inverse pairs and no-ops when not applicable.

A node {attr: X, other: 1} where X ranges over: missing, every scalar kind, sequences and
mappings of length 0..2/3 whose items come from 14 item shapes; every choice of value
attribute (None / 'v') and strictness; the two key-renaming helpers over keys with and
without '-' and '_'.  Oracle: a model written from the docstrings (documented shape inside
the domain, unchanged outside), the two inverse laws, and the key-renaming inverse law.
"""
import itertools

import yaml
import yatiml

from mc import core, models
from mc.docs import M, Q, S
from mc.models import P, norm_tree, to_node, view

PROPERTY = 'C15'
RULE = ('choice tree: transform x value attribute x strictness x attribute content (missing | scalar kinds | sequence or '
        'mapping of length <= L over the item shapes); each leaf applies the real helper to a fresh node and compares the '
        'resulting plain-data view with the docstring model; inverse laws checked on every in-domain input; '
        'non-trivial = inputs in the documented domain (transformed) plus inputs with duplicate keys')
ASSUMPTIONS = [
    'documented domain = sequence / mapping of mappings with unique string keys (each item carrying a string key attribute)',
    'inputs whose items lack the key attribute, carry a non-string key attribute or already contain the key attribute '
    '(map->seq/index direction) are outside the domain: only "no exception other than SeasoningError" is required there',
]
KEY, VAL = 'id', 'v'


def BOUNDS(tier):
    return {'max_collection_length': 3 if tier == 'quick' else 4, 'item_shapes': len(SEQ_ITEMS),
            'value_attribute': [None, VAL], 'strict': [True, False],
            'chains': 'every in-domain result is the start state of every second transform (depth 2), compared with the same '
                      'second transform applied to a freshly built node of the documented shape'}


def m(*pairs):
    return M([(S('str', k), v if isinstance(v, tuple) else S('int', str(v))) for k, v in pairs])


SEQ_ITEMS = [
    m(('id', S('str', 'k1')), ('v', 1)), m(('id', S('str', 'k2')), ('v', 1), ('w', 2)), m(('id', S('str', 'k3'))),
    m(('id', S('str', 'k1')), ('w', 2)), m(('v', 1)), m(), m(('id', S('int', '5')), ('v', 1)),
    m(('id', S('str', 'k4')), ('v', m(('a', 1)))), S('str', 'x'), S('int', '3'), Q([S('int', '1')]),
    m(('w', 2), ('id', S('str', 'k5')), ('v', 1)), m(('id', S('str', 'k6')), ('v', Q([S('int', '1'), S('int', '2')]))),
    m(('id', S('str', 'k1')), ('v', 9)),
]


def map_values(k):
    """value shapes for a mapping entry with outer key k"""
    ks = S('str', k)
    return [m(('id', ks), ('v', 1)), m(('id', ks), ('v', 1), ('w', 2)), m(('id', ks)), m(('id', S('str', 'other')), ('v', 1)),
            m(('v', 1)), m(), m(('v', 1), ('w', 2)), S('str', 'x'), S('int', '3'), Q([S('int', '1')]),
            m(('id', ks), ('v', m(('a', 1)))), m(('w', 2), ('id', ks), ('v', 1)), m(('v', m(('a', 1)))), m(('w', 2))]


def full(t):
    return norm_tree(t)


# ---------------------------------------------------------------- docstring model (on normalised trees)

def is_map(t):
    return t[0] == 'm'


def mget(t, k):
    return [b for a, b in t[2] if a[0] == 's' and a[2] == k]


def strkey(t):
    return t[0] == 's' and t[1] == P + 'str'


DOMAIN, OUTSIDE, UNCHANGED, DUPLICATE = 'domain', 'outside', 'unchanged', 'duplicate'


def model_seq_to_map(X, val):
    """-> (class, expected X')"""
    if X is None or X[0] != 'q' or any(not is_map(i) for i in X[2]):
        return UNCHANGED, X
    keys = []
    for it in X[2]:
        ks = mget(it, KEY)
        if len(ks) != 1 or not strkey(ks[0]):
            return OUTSIDE, None
        keys.append(ks[0][2])
    if len(set(keys)) != len(keys):
        return DUPLICATE, X
    pairs = []
    for it in X[2]:
        k = mget(it, KEY)[0]
        rest = tuple((a, b) for a, b in it[2] if a[2] != KEY)
        if val is not None and len(rest) == 1 and rest[0][0][2] == val:
            pairs.append((k, rest[0][1]))
        else:
            pairs.append((k, ('m', it[1], rest)))
    return DOMAIN, ('m', P + 'map', tuple(pairs))


def model_map_to_seq(X, val):
    if X is None or X[0] != 'm':
        return UNCHANGED, X
    if any(a[0] != 's' for a, b in X[2]):
        return UNCHANGED, X        # a key that is a collection: not a mapping of the expected kind
    if any(not strkey(a) for a, b in X[2]) or len({a[2] for a, b in X[2]}) != len(X[2]):
        return OUTSIDE, None
    items = []
    for a, b in X[2]:
        if not is_map(b):
            if val is None:
                return UNCHANGED, X
            b = ('m', P + 'map', ((('s', P + 'str', val), b),))
        if mget(b, KEY):
            return OUTSIDE, None
        items.append(('m', b[1], b[2] + ((('s', P + 'str', KEY), a),)))
    return DOMAIN, ('q', P + 'seq', tuple(items))


def model_index_to_map(X, val):
    if X is None or X[0] != 'm' or any(not is_map(b) for a, b in X[2]):
        return UNCHANGED, X
    if any(not strkey(a) for a, b in X[2]) or len({a[2] for a, b in X[2]}) != len(X[2]):
        return OUTSIDE, None
    pairs = []
    for a, b in X[2]:
        rest = tuple((kk, vv) for kk, vv in b[2] if kk[2] != KEY)
        if len(rest) == 1 and rest[0][0][2] == val:
            pairs.append((a, rest[0][1]))
        else:
            pairs.append((a, ('m', b[1], rest)))
    return DOMAIN, ('m', X[1], tuple(pairs))


def model_map_to_index(X, val):
    if X is None or X[0] != 'm':
        return UNCHANGED, X
    if any(not strkey(a) for a, b in X[2]) or len({a[2] for a, b in X[2]}) != len(X[2]):
        return OUTSIDE, None
    pairs = []
    for a, b in X[2]:
        if not is_map(b):
            if val is None:
                return UNCHANGED, X
            b = ('m', P + 'map', ((('s', P + 'str', val), b),))
        if mget(b, KEY):
            # the full form (the item says its key itself) keeps working, the docstring says the short forms "also" work
            pairs.append((a, b))
            continue
        pairs.append((a, ('m', b[1], b[2] + ((('s', P + 'str', KEY), a),))))
    return DOMAIN, ('m', X[1], tuple(pairs))


MODELS = {'seq_to_map': model_seq_to_map, 'map_to_seq': model_map_to_seq, 'index_to_map': model_index_to_map,
          'map_to_index': model_map_to_index}


def apply(tr, node, val, strict):
    if tr == 'seq_to_map':
        node.seq_attribute_to_map('attr', KEY, val, strict)
    elif tr == 'map_to_seq':
        node.map_attribute_to_seq('attr', KEY, val)
    elif tr == 'index_to_map':
        node.index_attribute_to_map('attr', KEY, val)
    else:
        node.map_attribute_to_index('attr', KEY, val)


def wrap(X):
    pairs = []
    if X is not None:
        pairs.append((S('str', 'attr'), X))
    pairs.append((S('str', 'other'), S('int', '1')))
    return full(M(pairs))


def strip_key(item):
    """(ordered attributes other than the key attribute, key value) for the inverse law"""
    return tuple((a, b) for a, b in item[2] if a[2] != KEY), [b for a, b in item[2] if a[2] == KEY]


def run_case(tr, X, val, strict, res):
    Xn = full(X) if X is not None else None
    cls, want = MODELS[tr](Xn, val)
    before = wrap(X)
    node = yatiml.Node(to_node(before))
    exc = None
    try:
        apply(tr, node, val, strict)
    except Exception as e:     # noqa
        exc = e
    after = view(node.yaml_node)
    res.traces += 1
    res.hist['%s:%s' % (tr, cls)] += 1
    payload = {'transform': tr, 'X': X, 'value_attribute': val, 'strict': strict}
    desc = '%s(attr, %r, %r%s) on attr=%s' % (tr, KEY, val, '' if tr != 'seq_to_map' else ', strict=%s' % strict, show(X))
    if exc is not None and not isinstance(exc, yatiml.SeasoningError):
        res.violation('C15:%s:raises-%s:%s' % (tr, type(exc).__name__, cls),
                      '%s raises %s: %s' % (desc, type(exc).__name__, exc), payload)
        return
    if cls == OUTSIDE:
        return
    if cls == DUPLICATE:
        res.nontrivial += 1
        if strict and exc is None:
            res.violation('C15:%s:duplicate-not-reported' % tr, desc + ' has duplicate keys but strict mode did not raise', payload)
        if not strict and exc is not None:
            res.violation('C15:%s:duplicate-raises-nonstrict' % tr, desc + ' raised SeasoningError in non-strict mode', payload)
        if after != before:
            res.violation('C15:%s:duplicate-modified' % tr, desc + ' modified the node although keys are not unique', payload)
        return
    if cls == UNCHANGED:
        if after != before:
            res.violation('C15:%s:not-left-unchanged' % tr, desc + ': not applicable, but the node was modified: ' + show(after), payload)
        elif exc is not None and tr != 'index_to_map':
            res.violation('C15:%s:raises-when-not-applicable' % tr, desc + ': not applicable, but %s was raised: %s' % (
                type(exc).__name__, exc), payload)
        return
    res.nontrivial += 1
    expected = wrap_full(want)
    if exc is not None:
        res.violation('C15:%s:raises-in-domain' % tr, desc + ' is in the documented domain but raised SeasoningError: %s' % exc, payload)
        return
    if after != expected:
        res.violation('C15:%s:wrong-shape' % tr, desc + ' gave %s, documented shape is %s' % (show(after), show(expected)), payload)
        return
    res.sample({'transform': tr, 'value_attribute': val, 'before': show(before), 'after': show(after)}, 2)
    shared_cases(tr, X, Xn, val, strict, res, after, payload, desc)
    chain_cases(tr, before, expected, val, strict, res, payload, desc)
    # inverse laws
    if tr in ('seq_to_map', 'index_to_map'):
        if val is not None and any(mget(it, val) and is_map(mget(it, val)[0]) for it in (Xn[2] if tr == 'seq_to_map' else [b for a, b in Xn[2]])):
            res.hist['inverse-excluded:value-holds-mapping'] += 1
            return
        if tr == 'index_to_map' and any(len(mget(b, KEY)) != 1 or mget(b, KEY)[0] != a for a, b in Xn[2]):
            res.hist['inverse-excluded:key-attribute-differs-from-key'] += 1
            return
        inv = 'map_to_seq' if tr == 'seq_to_map' else 'map_to_index'
        try:
            apply(inv, node, val, strict)
        except Exception as e:     # noqa
            res.violation('C15:%s:inverse-raises' % tr, desc + ': inverse %s raised %s' % (inv, e), payload)
            return
        back = view(node.yaml_node)
        res.hist['inverse-law:' + tr] += 1
        got = mget(back, 'attr')[0]
        ok = got[0] == Xn[0] and len(got[2]) == len(Xn[2])
        if ok:
            if tr == 'seq_to_map':
                ok = all(i[0] == 'm' and strip_key(i) == strip_key(j) for i, j in zip(got[2], Xn[2]))
            else:
                ok = all(a == c and b[0] == 'm' and strip_key(b) == strip_key(d) for (a, b), (c, d) in zip(got[2], Xn[2]))
        if not ok or [p for p in back[2] if p[0][2] != 'attr'] != [p for p in before[2] if p[0][2] != 'attr']:
            res.violation('C15:%s:inverse-law' % tr, desc + ': %s then %s gives %s' % (tr, inv, show(got)), payload)


def outcome_of(tr2, val2, tree, strict, first=None):
    """apply (optionally `first` = (transform, value attribute), then) tr2 to a fresh node built from the tree"""
    node = yatiml.Node(to_node(tree))
    try:
        if first is not None:
            apply(first[0], node, first[1], strict)
        apply(tr2, node, val2, strict)
    except Exception as e:     # noqa
        return ('raises', type(e).__name__), view(node.yaml_node)
    return ('returns',), view(node.yaml_node)


def chain_cases(tr, before, expected, val, strict, res, payload, desc):
    """non-initial start states: the node this transform produced is handed to every transform (with either value
    attribute); the outcome must be the one obtained from a freshly built node of the same plain-data shape (a result
    that still shares node objects with its input, or carries left-over state, shows here)"""
    for tr2 in MODELS:
        for val2 in (None, VAL):
            res.transitions += 1
            res.traces += 1
            via = outcome_of(tr2, val2, before, strict, first=(tr, val))
            direct = outcome_of(tr2, val2, expected, strict)
            res.hist['chain:%s>%s:%s' % (tr, tr2, via[0][0])] += 1
            if via != direct:
                res.violation('C15:chain:%s>%s' % (tr, tr2),
                              desc + ': then %s(value attribute %r) %s with %s, but on a fresh node of the same shape it %s with %s' % (
                                  tr2, val2, ' '.join(via[0]), show(mget(via[1], 'attr')[0]) if mget(via[1], 'attr') else '<missing>',
                                  ' '.join(direct[0]), show(mget(direct[1], 'attr')[0]) if mget(direct[1], 'attr') else '<missing>'), payload)
                return


def shared_cases(tr, X, Xn, val, strict, res, after, payload, desc):
    """the same in-domain input where node OBJECTS are shared (what an alias composes to, and what a dumper builds for
    an object referenced twice): the collection and its first item are also the values of two other attributes, and
    (mappings) the first item is also the value of the second key; the other references must not change and the
    attribute must come out as without sharing"""
    root = to_node(wrap(X))
    attr_node = [v for k, v in root.value if k.value == 'attr'][0]
    items = [v for v in (attr_node.value if Xn[0] == 'q' else [b for a, b in attr_node.value])]
    root.value.append((yaml.ScalarNode(P + 'str', 'coll'), attr_node))
    if items:
        root.value.append((yaml.ScalarNode(P + 'str', 'item'), items[0]))
    pre = view(root)
    res.traces += 1
    res.transitions += 1
    try:
        apply(tr, yatiml.Node(root), val, strict)
    except Exception as e:     # noqa
        res.violation('C15:%s:shared-raises' % tr, desc + ' with shared nodes raised %s: %s' % (type(e).__name__, e), payload)
        return
    post = view(root)
    for name in ('coll', 'item', 'other'):
        if mget(post, name) != mget(pre, name):
            res.violation('C15:%s:changes-shared-%s' % (tr, name),
                          desc + ': the %s is also referenced by attribute %r, which changed from %s to %s' % (
                              'collection' if name == 'coll' else 'first item', name, show(mget(pre, name)[0]), show(mget(post, name)[0])), payload)
            return
    if mget(post, 'attr') != mget(after, 'attr'):
        res.violation('C15:%s:shared-differs' % tr, desc + ' gives %s when its nodes are referenced elsewhere too, %s otherwise' % (
            show(mget(post, 'attr')[0]), show(mget(after, 'attr')[0])), payload)
        return
    res.hist['shared:' + tr] += 1
    # the keys of the converted attribute are then edited (a sweetener's next step): the other references still must
    # not change (a key node that was an attribute value of a shared item before the conversion)
    conv = yatiml.Node(root).get_attribute('attr')
    if conv.is_mapping():
        for step in ('rename', 'dashes', 'unders'):
            try:
                if step == 'rename':
                    for k, _ in list(conv.yaml_node.value):
                        if isinstance(k, yaml.ScalarNode) and k.tag == P + 'str':
                            conv.rename_attribute(k.value, k.value + '-re_named')
                elif step == 'dashes':
                    conv.unders_to_dashes_in_keys()
                else:
                    conv.dashes_to_unders_in_keys()
            except Exception as e:     # noqa
                res.violation('C15:%s:key-edit-raises' % tr, desc + ', then %s of the keys of the result raised %s: %s' % (step, type(e).__name__, e), payload)
                return
            res.transitions += 1
            res.traces += 1
            post2 = view(root)
            for name in ('coll', 'item', 'other'):
                if mget(post2, name) != mget(pre, name):
                    res.violation('C15:%s:key-edit-changes-shared-%s' % (tr, name),
                                  desc + ', then editing the keys of the result (%s): attribute %r, which refers to the %s the attribute was made from, '
                                  'changed from %s to %s' % (step, name, 'collection' if name == 'coll' else 'first item',
                                                             show(mget(pre, name)[0]), show(mget(post2, name)[0])), payload)
                    return
        res.hist['shared-then-key-edit:' + tr] += 1
    if Xn[0] == 'm' and len(Xn[2]) >= 2:
        # one item object under the first two keys
        X2 = ('m', Xn[1], (Xn[2][0], (Xn[2][1][0], Xn[2][0][1])) + Xn[2][2:])
        cls2, want2 = MODELS[tr](X2, val)
        if cls2 != DOMAIN:
            return
        root = to_node(wrap_full(X2))
        attr_node = [v for k, v in root.value if k.value == 'attr'][0]
        attr_node.value[1] = (attr_node.value[1][0], attr_node.value[0][1])
        res.traces += 1
        res.transitions += 1
        try:
            apply(tr, yatiml.Node(root), val, strict)
        except Exception as e:     # noqa
            res.violation('C15:%s:shared-raises' % tr, desc + ' with one item under two keys raised %s: %s' % (type(e).__name__, e), payload)
            return
        if view(root) != wrap_full(want2):
            res.violation('C15:%s:one-item-two-keys' % tr, desc + ' with the first item object also under the second key gives %s, documented shape %s' % (
                show(mget(view(root), 'attr')[0]), show(want2)), payload)
            return
        res.hist['shared-two-keys:' + tr] += 1


def wrap_full(Xn):
    return ('m', P + 'map', ((('s', P + 'str', 'attr'), Xn), (('s', P + 'str', 'other'), ('s', P + 'int', '1'))))


def show(t):
    """compact rendering of a tree"""
    if t is None:
        return '<missing>'
    k, tag, v = t
    tg = '' if tag in ('str', 'int', 'map', 'seq', P + 'str', P + 'int', P + 'map', P + 'seq') else '!<%s>' % tag
    if k == 's':
        return tg + (repr(v) if tag.endswith('str') else v)
    if k == 'q':
        return tg + '[' + ', '.join(show(i) for i in v) + ']'
    return tg + '{' + ', '.join('%s: %s' % (show(a), show(b)) for a, b in v) + '}'


def contents(tier):
    L = BOUNDS(tier)['max_collection_length']
    yield None
    for s in (S('str', 'a'), S('int', '1'), S('float', '1.5'), S('bool', 'true'), S('null', ''), S('timestamp', '2001-01-01')):
        yield s
    for n in range(0, L + 1):
        for items in itertools.product(SEQ_ITEMS, repeat=n):
            yield Q(items)
    keys = ['k1', 'k2', 'k3', 'k4']
    for n in range(0, L + 1):
        for vals in itertools.product(*[map_values(keys[i]) for i in range(n)]):
            yield M([(S('str', keys[i]), v) for i, v in enumerate(vals)])
    yield M([(S('int', '5'), m(('v', 1)))])
    yield M([(S('str', 'k1'), m(('v', 1))), (S('str', 'k1'), m(('v', 2)))])
    # keys that are collections: "not of the expected kind", whatever the items are (mappings, scalars) and with or
    # without a value attribute
    for v in (m(('v', 1)), m(('id', S('str', 'k')), ('v', 1)), S('int', '3'), S('str', 'x'), m()):
        yield M([(Q([S('str', 'k1'), S('str', 'k2')]), v)])
        yield M([(S('str', 'k1'), m(('v', 1))), (Q([S('str', 'k2')]), v)])
        yield M([(M([(S('str', 'k'), S('int', '1'))]), v), (S('str', 'k2'), v)])


KEYSETS = ['a', 'a_b', 'a-b', 'a_b-c', '_', '-', 'a__b', 'x-y-z', '']


NONSTRING = [('null', 'null'), ('bool', 'true'), ('int', '7'), ('float', '1.5'), ('null', '~')]


def retext(t, tag, old, new):
    """the tree with every scalar of that tag and text given another text"""
    k, tg, v = t
    if k == 's':
        return (k, tg, new) if (tg == P + tag and v == old) else t
    if k == 'q':
        return (k, tg, tuple(retext(i, tag, old, new) for i in v))
    return (k, tg, tuple((retext(a, tag, old, new), retext(b, tag, old, new)) for a, b in v))


def nonstring_unit(res, tier):
    """attribute names are strings: a key that YAML reads as null / bool / int / float is not the attribute of the same
    spelling.  Metamorphic oracle: a call that names an attribute N behaves on a node with a NON-string key spelt N exactly
    as on the same node with that key spelt differently (the outer attribute, the key attribute and the value attribute
    are each tried as N)"""
    small = [X for X in contents('quick') if X is not None and X[0] in ('q', 'm') and len(X[2]) <= 2][:400]
    for tag, text in NONSTRING:
        other = {'null': 'Null', 'bool': 'false', 'int': '8', 'float': '2.5'}[tag] if text != '~' else 'null'
        for tr in MODELS:
            for X in small:
                Xn = full(X)
                variants = []
                # (a) the outer attribute is named like a non-string key
                variants.append(('outer', ('m', P + 'map', (((('s', P + tag, text)), Xn), (('s', P + 'str', 'other'), ('s', P + 'int', '1')))), text, KEY, VAL))
                # (b) the items carry a non-string key spelt like the value attribute / the key attribute
                items = Xn[2] if Xn[0] == 'q' else tuple(b for a, b in Xn[2])
                if items and all(i[0] == 'm' for i in items):
                    def withkey(i):
                        return ('m', i[1], i[2] + ((('s', P + tag, text), ('s', P + 'str', 'x')),))
                    Xk = ('q', Xn[1], tuple(withkey(i) for i in items)) if Xn[0] == 'q' else ('m', Xn[1], tuple((a, withkey(b)) for a, b in Xn[2]))
                    variants.append(('value-attribute', wrap_full(Xk), 'attr', KEY, text))
                    variants.append(('key-attribute', wrap_full(Xk), 'attr', text, VAL))
                for what, tree, attr, keyattr, valattr in variants:
                    outs = []
                    for spelling in (text, other):
                        t2 = retext(tree, tag, text, spelling)
                        node = yatiml.Node(to_node(t2))
                        try:
                            if tr == 'seq_to_map':
                                node.seq_attribute_to_map(attr, keyattr, valattr, True)
                            elif tr == 'map_to_seq':
                                node.map_attribute_to_seq(attr, keyattr, valattr)
                            elif tr == 'index_to_map':
                                node.index_attribute_to_map(attr, keyattr, valattr)
                            else:
                                node.map_attribute_to_index(attr, keyattr, valattr)
                            o = ('returns',)
                        except yatiml.SeasoningError:
                            o = ('raises', 'SeasoningError')
                        except Exception as e:     # noqa
                            o = ('raises', type(e).__name__)
                        outs.append((o, retext(view(node.yaml_node), tag, spelling, text)))
                    res.states += 1
                    res.transitions += 2
                    res.traces += 2
                    res.hist['nonstring-key:' + what] += 1
                    if outs[0] != outs[1]:
                        res.nontrivial += 1
                        res.violation('C15:%s:non-string-key-taken-for-%s' % (tr, what),
                                      '%s naming %s %r on %s: with the !!%s key spelt %r it %s and gives %s, spelt %r it %s and gives (respelt) %s' % (
                                          tr, what, text, show(tree), tag, text, ' '.join(outs[0][0]), show(outs[0][1]), other, ' '.join(outs[1][0]), show(outs[1][1])),
                                      {'transform': 'nonstring'})


def units(tier):
    out = [(tr, val, strict) for tr in MODELS for val in (None, VAL) for strict in ((True, False) if tr == 'seq_to_map' else (True,))]
    out.append(('keys',))
    out.append(('nonstring',))
    return out


def run_unit(unit, tier):
    res = core.Result()
    if unit[0] == 'nonstring':
        nonstring_unit(res, tier)
        return res
    if unit[0] == 'keys':
        for n in range(0, 4):
            for ks in itertools.permutations(KEYSETS, n):
                res.states += 1
                for first, second, ch in (('unders_to_dashes', 'dashes_to_unders', '-'), ('dashes_to_unders', 'unders_to_dashes', '_')):
                    res.transitions += 1
                    tree = full(M([(S('str', k), S('int', '1')) for k in ks] + [(Q([S('str', 'a_b-c')]), S('int', '2'))][:n % 2]))
                    node = yatiml.Node(to_node(tree))
                    try:
                        getattr(node, first + '_in_keys')()
                        mid = view(node.yaml_node)
                        getattr(node, second + '_in_keys')()
                    except Exception as e:     # noqa
                        res.violation('C15:keys:raises-' + type(e).__name__, '%s_in_keys on %s raised %s' % (first, show(tree), e),
                                      {'transform': 'keys', 'keys': list(ks), 'first': first})
                        continue
                    res.traces += 1
                    after = view(node.yaml_node)
                    want_mid = tuple((('s', a[1], a[2].replace('_' if ch == '-' else '-', ch)) if a[0] == 's' else a, b) for a, b in tree[2])
                    if mid[2] != want_mid:
                        res.violation('C15:keys:wrong-result', '%s_in_keys on %s gave %s' % (first, show(tree), show(mid)),
                                      {'transform': 'keys', 'keys': list(ks), 'first': first})
                    if all(ch not in k for k in ks):
                        res.nontrivial += 1
                        res.hist['keys-inverse-law'] += 1
                        if after != tree:
                            res.violation('C15:keys:inverse-law', '%s then %s on %s gave %s' % (first, second, show(tree), show(after)),
                                          {'transform': 'keys', 'keys': list(ks), 'first': first})
        return res
    tr, val, strict = unit
    for X in contents(tier):
        res.states += 1
        res.transitions += 1
        run_case(tr, X, val, strict, res)
    return res


def finish(total, tier):
    for tr in MODELS:
        for cls in (DOMAIN, UNCHANGED):
            if total.hist['%s:%s' % (tr, cls)] < 10:
                raise core.Vacuous('%s:%s reached %d times' % (tr, cls, total.hist['%s:%s' % (tr, cls)]))
    if total.hist['seq_to_map:duplicate'] < 10:
        raise core.Vacuous('no duplicate-key inputs')


def _tuplify(x):
    if isinstance(x, list):
        return tuple(_tuplify(i) for i in x)
    return x


def replay(payload):
    res = core.Result()
    if payload['transform'] == 'nonstring':
        nonstring_unit(res, 'quick')
        return bool(res.violations), (res.violations[0]['what'] if res.violations else 'non-string keys are never taken for attributes')
    if payload['transform'] == 'keys':
        return False, 'key-renaming replays are run through the unit (see evidence)'
    X = _tuplify(payload['X'])
    run_case(payload['transform'], X, payload['value_attribute'], payload['strict'], res)
    if res.violations:
        return True, res.violations[0]['what']
    return False, 'transform behaves as documented on this input'
