"""C06 - dumps are faithful, tag-free and ordered, and leave the object untouched.

The value catalogue of C05 plus models with _yatiml_attributes, inheritance and
sweeteners, through dumps_function and through the deprecated Dumper/add_to_dumper path.
Oracles: (1) the text parses as exactly one document and no parse event carries a tag;
(2) yaml.safe_load(text) equals the reference projection (mc/values.project), order
included; (3) a deep structural snapshot of the object graph is unchanged; (4) a second
dump gives identical text.
"""
import collections
import pathlib

import yaml
import yatiml
import yatiml.dumper

from mc import core, dumpcat, loadcase, models, values
from mc.loadcase import eqv, show

PROPERTY = 'C06'
RULE = ('choice tree: dump path (dumps_function | deprecated Dumper) x model x value; each leaf dumps with the real code, '
        're-parses with plain PyYAML (events and safe_load) and compares with the reference projection; the object graph '
        'is snapshotted before and after; non-trivial = values whose projection is not the value itself (classes, enums, '
        'string-likes, paths, sweetened) or whose text needs quoting')
ASSUMPTIONS = [
    'the reference projection and the plain-data models of the declarative sweeteners in mc/values.py',
    '"read by a plain YAML parser" = yaml.safe_load (YAML 1.1 typing), so every value the projection calls a string '
    'must come back as a string there as well',
]


def BOUNDS(tier):
    return {'yaml_alphabet': values.YAML_ALPHA, 'yaml_maxlen': 2 if tier == 'quick' else 3,
            'num_alphabet': values.NUM_ALPHA, 'num_maxlen': 3 if tier == 'quick' else 4,
            'positions': POSITIONS, 'structured_families': len(families())}


POSITIONS = ['top', 'dict-key', 'class-attr', 'extra-attr', 'userstring', 'ystring-key', 'list-item']


def K(params, **kw):
    d = {'name': 'K', 'params': params}
    d.update(kw)
    return d


def extra_families():
    B = dumpcat.BASE
    fam = []
    fam.append(('attributes', {'classes': B + [K([('a', 'int'), ('b', 'str', 'x')], attributes=['b', 'a'])], 'root': ('cls', 'K')},
                lambda b: [b.classes['K'](1), b.classes['K'](2, 'y')]))
    fam.append(('attributes-nested', {'classes': B + [K([('a', ('cls', 'In')), ('e', ('cls', 'E'))], attributes=['e', 'a'])],
                                      'root': ('list', ('cls', 'K'))},
                lambda b: [[b.classes['K'](b.classes['In'](1), list(b.classes['E'])[1])]]))
    a = {'name': 'A', 'params': [('x', 'int'), ('d_e', 'str', 'q')], 'hooks': {'sweeten': [('unders_to_dashes',)]}}
    bb = {'name': 'B', 'bases': ['A'], 'params': [('x', 'int'), ('d_e', 'str', 'q'), ('y_z', 'int', 3)],
          'hooks': {'sweeten': [('set_attr_scalar', 'added', 1)]}}
    c = {'name': 'C', 'bases': ['B'], 'params': [('x', 'int'), ('d_e', 'str', 'q'), ('y_z', 'int', 3)]}
    fam.append(('inherit-sweeten', {'classes': B + [a, bb, c], 'root': ('list', ('cls', 'A'))},
                lambda b: [[b.classes['A'](1), b.classes['B'](2, 'w', 4), b.classes['C'](3)]]))
    # non-idempotent sweeteners on some levels of a chain only: an inherited hook must not run again for a subclass
    h = [{'name': 'H0', 'params': [('x', 'int')], 'hooks': {'sweeten': [('stamp', 'w_H0')]}},
         {'name': 'H1', 'bases': ['H0'], 'params': [('x', 'int'), ('y', 'int', 2)]},
         {'name': 'H2', 'bases': ['H1'], 'params': [('x', 'int'), ('y', 'int', 2)], 'hooks': {'sweeten': [('stamp', 'w_H2')]}},
         {'name': 'H3', 'bases': ['H2'], 'params': [('x', 'int'), ('y', 'int', 2)]}]
    fam.append(('inherit-sweeten-once', {'classes': B + h, 'root': ('list', ('cls', 'H0'))},
                lambda b: [[b.classes['H0'](1), b.classes['H1'](2), b.classes['H2'](3, 4), b.classes['H3'](5)],
                           [b.classes['H3'](6, 7)], [b.classes['H1'](8, 9)]]))
    # a subclass that inherits _yatiml_attributes() without overriding it
    fam.append(('attributes-inherited',
                {'classes': B + [K([('a', 'int'), ('b', 'str', 'x')], attributes=['b', 'a']),
                                 {'name': 'K2', 'bases': ['K'], 'params': [('a', 'int'), ('b', 'str', 'x')]}], 'root': ('list', ('cls', 'K'))},
                lambda b: [[b.classes['K2'](1), b.classes['K'](2, 'y'), b.classes['K2'](3, 'z')]]))
    # the LAST leaf of an object is not a plain scalar (enum member, path, string-like, empty collection) and the same
    # leaf object occurs again later in the document
    leaf = [{'name': 'L', 'params': [('n', 'int'), ('e', ('cls', 'E'))]}, {'name': 'Lp', 'params': [('n', 'int'), ('p', 'path')]},
            {'name': 'Ls', 'params': [('n', 'int'), ('s', ('cls', 'S'))]}, {'name': 'Ll', 'params': [('n', 'int'), ('l', ('list', 'int'))]},
            {'name': 'H', 'params': [('a', 'any'), ('b', 'any'), ('c', 'any', None)]}]

    def leaf_reuse(b):
        e = list(b.classes['E'])[0]
        p = pathlib.Path('a/b')
        s_ = b.classes['S']('str-like')
        lst = []
        H = b.classes['H']
        return [H(b.classes['L'](1, e), e), H(b.classes['Lp'](1, p), p, [p]), H(b.classes['Ls'](1, s_), s_), H(b.classes['Ll'](1, lst), lst),
                [b.classes['L'](1, e), b.classes['L'](2, e), e]]
    fam.append(('shared-leaf-reuse', {'classes': B + leaf, 'root': 'any'}, leaf_reuse))
    # sweeteners that write scalars of every kind through the Node helpers (the nodes they make carry their own spelling)
    fam.append(('sweeten-writes-scalars',
                {'classes': B + [K([('x', 'int')], hooks={'sweeten': [('set_attr_scalar', 'n', None), ('set_attr_scalar', 't', True),
                                                                      ('set_attr_scalar', 'f', False), ('set_attr_scalar', 'r', 1.5),
                                                                      ('set_attr_scalar', 's', 'str'), ('set_attr_scalar', 'i', 7)]})],
                 'root': ('dict', 'str', ('cls', 'K'))},
                lambda b: [{'k': b.classes['K'](1)}, {'a': b.classes['K'](2), 'b': b.classes['K'](3)}]))
    # int nodes in the other YAML spellings, put there by a sweeten (JSON has decimal numbers only)
    fam.append(('sweeten-writes-int-spellings',
                {'classes': B + [K([('x', 'int')], hooks={'sweeten': [('set_attr_node', 'h', ('s', 'int', '0x1F')), ('set_attr_node', 'o', ('s', 'int', '017')),
                                                                      ('set_attr_node', 'b', ('s', 'int', '-0b101')), ('set_attr_node', 'u', ('s', 'int', '1_000')),
                                                                      ('set_attr_node', 'p', ('s', 'int', '+5')), ('set_attr_node', 'd', ('s', 'int', '12'))]})],
                 'root': ('list', ('cls', 'K'))},
                lambda b: [[b.classes['K'](1)]]))
    fam.append(('sweeten-writes-floats',
                {'classes': B + [K([('x', 'int')], hooks={'sweeten': [('set_attr_scalar', 'a', float('inf')), ('set_attr_scalar', 'b', float('-inf')),
                                                                      ('set_attr_scalar', 'c', float('nan')), ('set_attr_scalar', 'd', 1e-6),
                                                                      ('set_attr_scalar', 'e', 1e22), ('set_attr_scalar', 'f', 1.0),
                                                                      ('set_attr_scalar', 'g', -0.0), ('set_attr_scalar', 'h', 123456789.125)]})],
                 'root': ('list', ('cls', 'K'))},
                lambda b: [[b.classes['K'](1)]]))
    fam.append(('sweeten-writes-finite-floats',
                {'classes': B + [K([('x', 'int')], hooks={'sweeten': [('set_attr_scalar', 'd', 1e-6), ('set_attr_scalar', 'e', 1e22),
                                                                      ('set_attr_scalar', 'f', 1.0), ('set_attr_scalar', 'g', -0.0),
                                                                      ('set_attr_scalar', 'h', 123456789.125), ('set_attr_scalar', 'i', 5e-324)]})],
                 'root': ('list', ('cls', 'K'))},
                lambda b: [[b.classes['K'](1)]]))
    for val in (None, True, 1.5, 3, float('inf'), float('nan'), 1e-7, 1e16):
        fam.append(('sweeten-set-value:%r' % (val,),
                    {'classes': [{'name': 'E3', 'kind': 'enum', 'members': ['aa', 'bb'], 'hooks': {'sweeten': [('set_value', val)]}}],
                     'root': ('list', ('cls', 'E3'))},
                    lambda b: [list(b.classes['E3'])]))
    fam.append(('order', {'classes': B + [K([('z', 'int'), ('a', 'int'), ('m', ('dict', 'str', 'int'))], extra=True)], 'root': ('cls', 'K')},
                lambda b: [b.classes['K'](1, 2, collections.OrderedDict([('q', 1), ('b', 2), ('a', 3)]),
                                          collections.OrderedDict([('y', 1), ('c', 2)]))]))
    fam.append(('ordereddict', {'classes': B, 'root': 'any'},
                lambda b: [collections.OrderedDict([('z', 1), ('a', collections.OrderedDict([('y', [1]), ('b', None)]))]),
                           [collections.OrderedDict()], {'k': collections.OrderedDict([('b', 1), ('a', 2)])}]))
    fam.append(('enum-sweeten', {'classes': [{'name': 'E2', 'kind': 'enum', 'members': ['aa', 'bb'],
                                              'hooks': {'sweeten': [('set_value', 'fixed')]}}], 'root': ('list', ('cls', 'E2'))},
                lambda b: [list(b.classes['E2'])]))
    return fam


_FAMS = None


def families():
    global _FAMS
    if _FAMS is None:
        _FAMS = dumpcat.structured_families() + extra_families()
    return _FAMS


def units(tier):
    out = []
    for path in ('function', 'deprecated'):
        for pos in POSITIONS:
            out.append(('str', path, pos, 'fixed', ''))
            for a in values.YAML_ALPHA:
                out.append(('str', path, pos, 'yaml', a))
            for a in values.NUM_ALPHA:
                out.append(('str', path, pos, 'num', a))
        for i in range(len(families())):
            out.append(('fam', path, i))
    return out


def make_dumps(path, classes):
    if path == 'function':
        return yatiml.dumps_function(*classes)

    class MyDumper(yatiml.dumper.Dumper):
        pass
    yatiml.dumper.add_to_dumper(MyDumper, list(classes))
    return lambda v: yaml.dump(v, Dumper=MyDumper)


def plain_eq(a, b):
    """equality of plain data, order-sensitive for mappings, nan-aware, kind-exact"""
    if isinstance(a, dict) and isinstance(b, dict):
        return len(a) == len(b) and all(plain_eq(ka, kb) and plain_eq(a[ka], b[kb]) for ka, kb in zip(a, b))
    if isinstance(a, list) and isinstance(b, list):
        return len(a) == len(b) and all(plain_eq(x, y) for x, y in zip(a, b))
    if type(a) is not type(b):
        return False
    if isinstance(a, float):
        return a == b or (a != a and b != b)
    return a == b


def check_dump(dumps, v, res, fam, desc, path):
    res.traces += 1
    pay = {'fam': fam, 'value': desc, 'path': path}
    before = values.snapshot(v)
    try:
        text = dumps(v)
    except Exception as e:     # noqa
        res.violation('C06:dump-raises:%s:%s' % (fam, type(e).__name__), 'dumps(%s) raised %s: %s' % (show(v), type(e).__name__, e), pay)
        return None
    after = values.snapshot(v)
    if before != after:
        res.violation('C06:modifies-object:%s' % fam, 'dumping %s modified the object graph' % show(v), pay)
    try:
        text2 = dumps(v)
    except Exception as e:     # noqa
        text2 = 'raised %r' % e
    if text2 != text:
        res.violation('C06:second-dump-differs:%s' % fam, 'dumping %s twice gives %r and %r' % (show(v), text, text2), pay)
    try:
        events = list(yaml.parse(text, Loader=yaml.SafeLoader))
    except yaml.YAMLError as e:
        res.violation('C06:not-well-formed:%s' % fam, 'dump of %s is not well-formed YAML: %r (%s)' % (show(v), text, e), pay)
        return text
    ndocs = sum(1 for e in events if isinstance(e, yaml.DocumentStartEvent))
    tagged = [e for e in events if getattr(e, 'tag', None) is not None]
    if ndocs != 1:
        res.violation('C06:documents:%s' % fam, 'dump of %s has %d documents: %r' % (show(v), ndocs, text), pay)
    if tagged:
        res.violation('C06:explicit-tag:%s' % fam, 'dump of %s carries tag %s: %r' % (show(v), tagged[0].tag, text), pay)
    try:
        got = yaml.safe_load(text)
    except Exception as e:     # noqa
        res.violation('C06:safe_load-fails:%s' % fam, 'yaml.safe_load of the dump of %s fails: %r (%s)' % (show(v), text, e), pay)
        return text
    want = values.project(v)
    if not plain_eq(got, want):
        res.violation('C06:projection:%s' % fam, 'dump of %s is %r which a plain parser reads as %s; the projection is %s' % (
            show(v), text, show(got), show(want)), pay)
    else:
        res.hist['faithful'] += 1
    return text


_CASES = {}


def run_unit(unit, tier):
    res = core.Result()
    b = BOUNDS(tier)
    if unit[0] == 'str':
        _, path, pos, alpha, first = unit
        key = (path, pos)
        if key not in _CASES:
            bd = models.build(dumpcat.string_spec(pos))
            _CASES[key] = (bd, make_dumps(path, bd.registered))
        bd, dumps = _CASES[key]
        mk = dumpcat.STRING_POSITIONS[pos][2]
        if alpha == 'fixed':
            strs = dumpcat.fixed_strings()
        else:
            A = values.YAML_ALPHA if alpha == 'yaml' else values.NUM_ALPHA
            L = b['yaml_maxlen'] if alpha == 'yaml' else b['num_maxlen']
            strs = (first + s for s in values.strings(A, L - 1))
        for s in strs:
            res.states += 1
            res.transitions += 1
            try:
                v = mk(bd, s)
            except Exception:     # noqa
                continue
            text = check_dump(dumps, v, res, 'str@' + pos, {'position': pos, 'string': s}, path)
            if text is not None and (s not in text or pos not in ('top', 'dict-key', 'list-item')):
                res.nontrivial += 1
                if len(s) > 1:
                    res.sample({'position': pos, 'string': s, 'text': text}, 1)
        return res
    _, path, i = unit
    name, spec, maker = families()[i]
    bd = models.build(spec)
    dumps = make_dumps(path, bd.registered)
    for j, v in enumerate(maker(bd)):
        res.states += 1
        res.transitions += 1
        res.nontrivial += 1
        text = check_dump(dumps, v, res, name.split(':')[0], {'family': name, 'index': j}, path)
        if text is not None:
            res.sample({'family': name, 'value': show(v), 'text': text}, 1)
    return res


def finish(total, tier):
    if total.hist['faithful'] < 5000:
        raise core.Vacuous('only %d faithful dumps' % total.hist['faithful'])


def replay(payload):
    res = core.Result()
    d = payload['value']
    path = payload.get('path', 'function')
    if 'position' in d:
        bd = models.build(dumpcat.string_spec(d['position']))
        v = dumpcat.STRING_POSITIONS[d['position']][2](bd, d['string'])
        check_dump(make_dumps(path, bd.registered), v, res, payload['fam'], d, path)
    else:
        for name, spec, maker in families():
            if name == d['family']:
                bd = models.build(spec)
                v = maker(bd)[d['index']]
                check_dump(make_dumps(path, bd.registered), v, res, payload['fam'], d, path)
    if res.violations:
        return True, res.violations[0]['what']
    return False, 'dump is faithful, tag-free, pure and deterministic'
