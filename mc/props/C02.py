"""C02 - load accepts exactly what the documented pipeline admits and builds that value.

Every model of the auto-recognition catalogue x every document of D(T): the verdict and
value of the reference semantics (mc/refsem.py) is a trace that is replayed against the
real load function.
"""
from mc import catalog, core, docs, loadcase, models
from mc.loadcase import eqv, show

PROPERTY = 'C02'
RULE = ('choice tree: model (catalogue, complete per family) x document of D(T) = valid trees (width<=2) + every '
        'single-point mutation of them + every tree with <= n nodes; each leaf is rendered to text, composed back '
        '(conformance of text and tree), loaded with the real load function and with the reference semantics; '
        'non-trivial = accepted documents, rejected mutations of valid documents')
ASSUMPTIONS = [
    'the reference semantics (mc/refsem.py) states the documented pipeline; calibration points K1-K8 are listed there',
    'scalar values are parsed by PyYAML\'s own scalar constructors on both sides',
    'which exception type reports a rejection is C08\'s business, the accept/reject boundary and the value are C02\'s',
]


def BOUNDS(tier):
    return {'models': len(units(tier)), 'collection_width': 2, 'tiny_nodes': 3 if tier == 'quick' else 4,
            'mutated_valid_docs_per_model': 12 if tier == 'quick' else 'all'}


_CAT = {}


def cat(tier):
    if tier not in _CAT:
        _CAT[tier] = catalog.all_load_models(tier)
    return _CAT[tier]


def units(tier):
    return list(range(len(cat(tier))))


TAGS = ['!Unknown', '!!map', '!!str', 'tag:yaml.org,2002:python/object:canary.Boom']


def compare(case, text, back, res, fam, kind):
    oi = case.impl(text)
    orf = case.reference(back)
    res.traces += 1
    io, ro = oi[0], orf[0]
    if ro == 'referr':
        raise core.HarnessError('reference failed on %r: %r' % (text, orf[1]))
    ok = False
    if io == 'ok' and ro == 'ok':
        ok = eqv(oi[1], orf[1])
        res.hist['accepted'] += 1
    elif io == 'rej' and ro == 'rej':
        ok = True
        res.hist['rejected'] += 1
    elif ro == 'ctorfail' and io in ('rej', 'yamlerr', 'exc'):
        ok = True
        res.hist['pyyaml-ctor-refuses:' + io] += 1
    elif ro == 'rej' and io == 'yamlerr':
        ok = True
        res.hist['rejected-by-yamlerror:' + oi[1]] += 1
    elif ro == 'rej' and io == 'exc':
        ok = True          # the boundary agrees; the exception type is reported by C08
        res.hist['rejected-by-other-exception'] += 1
    if not ok:
        what = 'impl=%s ref=%s' % (io if io != 'ok' else 'ok:' + show(oi[1]), ro if ro != 'ok' else 'ok:' + show(orf[1]))
        if io == 'rej':
            what += ' | ' + oi[1].replace('\n', ' / ')[:200]
        if io == 'exc':
            what += ' | %s: %s' % (type(oi[1]).__name__, oi[1])
        if io == 'exc':
            key = 'C02:exc/%s:%s' % (ro, loadcase.exc_key(oi[1]))
        else:
            key = 'C02:%s/%s:%s:%s' % (io, ro, fam, kind.split(':')[0])
        res.violation(key, 'model %s, document %r: %s' % (case.spec['root'], text, what),
                      loadcase.payload(case.spec, text, fam=fam, mutation=kind))
    return io, ro


def run_unit(unit, tier):
    res = core.Result()
    fam, spec = cat(tier)[unit]
    case = loadcase.Case(spec)
    names = [c.__name__ for c in case.b.registered if c.__name__ in ('K', 'In')]
    tags = ['!' + n for n in names] + TAGS
    ds = loadcase.document_set(spec, case, tier, tags=tags, n_mut=12 if tier == 'quick' else None,
                               tiny_n=3 if tier == 'quick' else 4)
    res.states += 1
    nacc = nrej = 0
    for kind, site, tree in ds:
        res.states += 1
        res.transitions += 1
        text, back = case.R.checked(tree)
        if text is None:
            res.hist['render-mismatch'] += 1
            continue
        io, ro = compare(case, text, back, res, fam, kind)
        if io == 'ok':
            nacc += 1
            res.nontrivial += 1
            if kind == 'valid':
                res.sample({'model': models.source_of(spec)[-3:], 'text': text, 'outcome': 'accepted'}, 2)
        elif kind != 'tiny':
            nrej += 1
            res.nontrivial += 1
    for text in ('', '---\n', '# only a comment\n'):
        # an empty document denotes the null value
        res.states += 1
        res.transitions += 1
        compare(case, text, ('s', models.P + 'null', ''), res, fam, 'empty')
    res.hist['models'] += 1
    res.hist['family:' + fam] += 1
    if nacc == 0 or (nrej == 0 and 'any' not in str(spec['root'])):
        res.hist['model-without-accept-or-reject'] += 1
        res.extra['degenerate'] = ['%s %s' % (fam, spec['root'])]
    return res


def finish(total, tier):
    if total.hist['accepted'] < 1000 or total.hist['rejected'] < 1000:
        raise core.Vacuous('too few accepted/rejected documents: %r' % dict(total.hist))
    if total.hist['model-without-accept-or-reject'] > 0:
        raise core.Vacuous('models without an accepted and a rejected document: %r' % total.extra.get('degenerate'))
    if total.hist['render-mismatch'] > total.traces // 100:
        raise core.Vacuous('too many render mismatches: %d' % total.hist['render-mismatch'])


def replay(payload):
    case = loadcase.Case(payload['spec'])
    res = core.Result()
    node = case.R.compose(payload['text'])
    back = models.view(node) if node is not None else ('s', models.P + 'null', '')
    compare(case, payload['text'], back, res, payload.get('fam', '?'), payload.get('mutation', '?'))
    if res.violations:
        return True, res.violations[0]['what']
    return False, 'implementation and reference semantics agree on this document'
