"""C10 - seasoning and recognition hooks run once, own class only, bases first.

Hierarchies: every single-inheritance chain of length <= 3, forks with 2 and 3 children and a
chain ending in a fork; _yatiml_savorize and _yatiml_recognize defined on EVERY pair of subsets
of the classes (loading), _yatiml_sweeten on every subset (dumping); an unregistered mix-in base
carrying all three hooks attached to each class in turn (before and after the registered base);
a savorize that raises SeasoningError at each class in turn.  Positions: top level, list item,
dict value, class attribute, Union member.  One document / value per concrete class.

Observation needs no patch of yatiml: every generated savorize/sweeten *stamps* the node it is
given (attribute s_<class> / w_<class> := 1 + number of stamps already there; +100 when called
twice on one node), so that the constructor arguments of each loaded object, and the text of each
dumped object, show which hooks ran on that very node, how often and in which order; all hooks also
append (kind, defining class, cls argument) to a log.
"""
import itertools

import yaml
import yatiml

from mc import core, loadcase, models
from mc.docs import M, Q, S
from mc.loadcase import show
from mc.models import LOG

PROPERTY = 'C10'
RULE = ('choice tree: hierarchy shape x subset of classes defining _yatiml_savorize x subset defining _yatiml_recognize '
        '(x subset defining _yatiml_sweeten for dumping) x mix-in placement x raising class x position x concrete class; each '
        'leaf loads (dumps) with the real functions and compares the stamps found on the object (in the text) and the hook '
        'log with the rule computed from the model; non-trivial = leaves in which at least one hook is expected to run')
ASSUMPTIONS = [
    'hooks observe through the public Node API only (set_attribute/get_attribute); constructor kwargs are recorded by the '
    'generated classes',
    'ancestors reachable only through an unregistered intermediate class are not exercised (the statement is silent)',
    'the dumping rule is checked for mapping classes; enum and string-like classes are covered on the loading side',
]
SHAPES = {'chain1': [None], 'chain2': [None, 0], 'chain3': [None, 0, 1], 'fork2': [None, 0, 0], 'fork3': [None, 0, 0, 0],
          'chainfork': [None, 0, 1, 1],
          # multiple inheritance over registered classes (beyond the quantifier of the property, inside its statement:
          # "each called exactly once, ancestors before descendants"); siblings may come in either order
          'diamond': [None, 0, 0, (1, 2)], 'diamondtail': [None, 0, 0, (1, 2), 3]}
MULTI = ('diamond', 'diamondtail')
POSITIONS = ['top', 'list', 'dict', 'attr', 'union']


def BOUNDS(tier):
    return {'shapes': list(SHAPES), 'hook_subsets': 'all savorize x recognize subsets; all sweeten subsets',
            'mixin_placements': 'each class x (before | after the registered base)' + (
                ' with 4 hook-subset choices' if tier == 'quick' else ' with every savorize subset'),
            'positions': POSITIONS, 'units': len(units(tier))}


def ancestors_first(parents, i):
    """linearisation used by the rule: registered bases (recursively) first, then the class"""
    out = []
    p = parents[i]
    for q in (p if isinstance(p, tuple) else (() if p is None else (p,))):
        out += [j for j in ancestors_first(parents, q) if j not in out]
    out.append(i)
    return out


def same_up_to_siblings(parents, exp, got):
    """multiple inheritance: the same hooks, each once, every ancestor before its descendants"""
    if set(got) != set(exp) or sorted(got.values()) != sorted(exp.values()):
        return False
    idx = {int(k.split('C')[1]): v for k, v in got.items()}
    return all(idx[a] < idx[d] for d in idx for a in ancestors_first(parents, d)[:-1] if a in idx)


def required_params(parents, i):
    return ['x'] + ['f%d' % j for j in ancestors_first(parents, i) if j != 0]


def make_spec(shape, Sset, Rset, Wset, mixin=None, raise_at=None, position='top'):
    parents = SHAPES[shape]
    n = len(parents)
    stamps = [('s_C%d' % j, 'int', 0) for j in range(n)] + [('s_Mx', 'int', 0)]
    classes = []
    if mixin is not None:
        classes.append({'name': 'Mx', 'params': [], 'registered': False,
                        # optionally the unregistered mix-in has the same __name__ as a registered class
                        'pyname': ('C%d' % mixin[2]) if len(mixin) > 2 else None,
                        'hooks': {'savorize': [('stamp', 's_Mx')], 'sweeten': [('stamp', 'w_Mx')],
                                  'recognize': [('permissive',)]}})
    for i, p in enumerate(parents):
        req = required_params(parents, i)
        hooks = {}
        if i in Sset:
            hooks['savorize'] = [('stamp', 's_C%d' % i)]
        if raise_at == i:
            hooks['savorize'] = [('raise', 'SeasoningError')]
        if i in Wset:
            hooks['sweeten'] = [('stamp', 'w_C%d' % i)]
        if i in Rset:
            hooks['recognize'] = [('require_attr', q) for q in req]
        bases = ['C%d' % q for q in (p if isinstance(p, tuple) else (() if p is None else (p,)))]
        if mixin is not None and mixin[0] == i:
            bases = (['Mx'] + bases) if mixin[1] == 'before' else (bases + ['Mx'])
        classes.append({'name': 'C%d' % i, 'bases': bases, 'params': [(q, 'int') for q in req] + stamps, 'hooks': hooks})
    classes.append({'name': 'H', 'params': [('h', ('cls', 'C0')), ('n', 'int', 0)]})
    root = {'top': ('cls', 'C0'), 'list': ('list', ('cls', 'C0')), 'dict': ('dict', 'str', ('cls', 'C0')),
            'attr': ('cls', 'H'), 'union': ('union', [('cls', 'C0'), 'int'])}[position]
    return {'classes': classes, 'root': root}


def subsets(n):
    for r in range(n + 1):
        for c in itertools.combinations(range(n), r):
            yield frozenset(c)


def units(tier):
    out = []
    for shape, parents in SHAPES.items():
        n = len(parents)
        for k in range(2 ** n):
            out.append(('load', shape, k))
        out.append(('dump', shape))
        for i in range(n):
            for place in ('before', 'after'):
                out.append(('mixin', shape, i, place))
            out.append(('mixin', shape, i, 'after', i))            # mix-in named like the class it is mixed into
            out.append(('mixin', shape, i, 'before', (i + 1) % n))  # ... or like another registered class
        out.append(('raise', shape))
        if shape not in MULTI:
            out.append(('incremental', shape))
    out.append(('scalar-classes',))
    return out


def doc_for(parents, i):
    return M([(S('str', q), S('int', '1')) for q in required_params(parents, i)])


def place_doc(position, d, d_last):
    if position == 'top' or position == 'union':
        return d, [()]
    if position == 'list':
        return Q([d, d_last]), [(0,), (1,)]
    if position == 'dict':
        return M([(S('str', 'k'), d), (S('str', 'l'), d_last)]), [('k',), ('l',)]
    return M([(S('str', 'h'), d)]), [('h',)]


def pick(value, position):
    """the loaded objects, in document order"""
    if position in ('top', 'union'):
        return [value]
    if position == 'list':
        return list(value)
    if position == 'dict':
        return [value['k'], value['l']]
    return [value._kw['h']]


def expected_stamps(parents, i, Sset):
    lin = [j for j in ancestors_first(parents, i) if j in Sset]
    return {'s_C%d' % j: k + 1 for k, j in enumerate(lin)}, lin


def check_load(res, spec, shape, Sset, Rset, position, i, text, parents, raise_at=None, fam='load'):
    """one leaf: load `text` whose class objects are (Ci, C_last) and check stamps + log"""
    case = check_load.cache.get(id(spec))
    if case is None:
        check_load.cache.clear()
        case = check_load.cache[id(spec)] = loadcase.Case(spec)
    n = len(parents)
    o = case.impl(text)
    log = list(LOG)
    res.traces += 1
    res.transitions += 1
    last = n - 1
    expect_classes = [i] if position in ('top', 'union', 'attr') else [i, last]
    pl = loadcase.payload(spec, text, shape=shape, position=position, cls=i, S=sorted(Sset), R=sorted(Rset),
                          raise_at=raise_at, side='load')
    hooks_expected = any(set(ancestors_first(parents, c)) & (Sset | Rset) for c in expect_classes)
    if hooks_expected:
        res.nontrivial += 1
    # --- log discipline: every hook is entered with cls = the class whose body defines it; never the mix-in's
    for kind, defining, clsname in [e for e in log if e[0] in ('savorize', 'sweeten', 'recognize')]:
        if defining != clsname:
            res.violation('C10:%s-of-%s-called-for-other-class:%s' % (kind, 'mixin' if defining == 'Mx' else 'base', fam),
                          '%s defined in %s was called with cls=%s for %r' % (kind, defining, clsname, text), pl)
            return
        if defining == 'Mx':
            res.violation('C10:mixin-hook-called:%s' % fam, 'hook %s of the unregistered mix-in ran for %r' % (kind, text), pl)
            return
    raising = raise_at is not None and any(raise_at in ancestors_first(parents, c) for c in expect_classes)
    if raising:
        if o[0] == 'rej':
            res.hist['seasoning-error->RecognitionError'] += 1
        else:
            res.violation('C10:seasoning-error-not-recognition-error:%s' % fam,
                          'savorize of C%d raises SeasoningError; load of %r gave %s' % (
                              raise_at, text, o[0] if o[0] != 'exc' else '%s: %s' % (type(o[1]).__name__, o[1])), pl)
        return
    if o[0] != 'ok':
        res.violation('C10:not-loaded:%s' % fam, 'document %r for class C%d at %s was not loaded: %s' % (
            text, i, position, (o[1] if isinstance(o[1], str) else repr(o[1]))[:200].replace('\n', ' / ')), pl)
        return
    try:
        objs = pick(o[1], position)
    except Exception as e:     # noqa
        res.violation('C10:wrong-shape:%s' % fam, 'value %s for %r' % (show(o[1]), text), pl)
        return
    seq = []
    for obj, c in zip(objs, expect_classes):
        exp, lin = expected_stamps(parents, c, Sset)
        if type(obj).__name__ != 'C%d' % c:
            res.violation('C10:wrong-class:%s' % fam, '%r at %s gave %s, expected C%d' % (text, position, show(obj), c), pl)
            return
        got = {k: v for k, v in obj._kw.items() if k.startswith('s_') and v != 0}
        if got != exp and shape in MULTI and same_up_to_siblings(parents, exp, got):
            lin = sorted(lin, key=lambda j: got['s_C%d' % j])
            got = exp
        if got != exp:
            twice = any(isinstance(v, int) and v >= 100 for v in got.values())
            missing = [k for k in exp if k not in got]
            foreign = [k for k in got if k not in exp]
            what = 'twice' if twice else ('foreign' if foreign else ('missing' if missing else 'order'))
            res.violation('C10:savorize-%s:%s' % (what, fam),
                          'object C%d loaded from %r at %s carries savorize stamps %s, the rule gives %s' % (
                              c, text, position, got, exp), pl)
            return
        seq += [('savorize', 'C%d' % j, 'C%d' % j) for j in lin]
    sav = [e for e in log if e[0] == 'savorize']
    if sav != seq:
        res.violation('C10:savorize-log:%s' % fam, 'savorize calls %s for %r, the rule gives %s' % (sav, text, seq), pl)
        return
    kinds = [e[0] for e in log]
    if 'savorize' in kinds:
        first_sav = kinds.index('savorize')
        if 'init' in kinds and kinds.index('init') < len(kinds) - 1 - kinds[::-1].index('savorize'):
            res.violation('C10:savorize-after-construction:%s' % fam, 'log %s for %r' % (log, text), pl)
            return
        first_cls = sav[0][1]
        recs = [k for k, e in enumerate(log) if e[0] == 'recognize']
        if expect_classes[0] in Rset and not (recs and recs[0] < first_sav):   # the loaded class's own recogniser
            res.violation('C10:savorize-before-recognition:%s' % fam, 'log %s for %r' % (log, text), pl)
            return
    res.hist['load-ok:' + position] += 1
    if hooks_expected:
        res.sample({'shape': shape, 'savorize_on': sorted(Sset), 'recognize_on': sorted(Rset), 'position': position,
                    'text': text, 'loaded': show(o[1])[:200]}, 2)


check_load.cache = {}


def load_space(res, shape, Ssets, Rsets, mixin=None, raise_ats=(None,), fam='load'):
    parents = SHAPES[shape]
    n = len(parents)
    for Sset in Ssets:
        for Rset in Rsets:
            for raise_at in raise_ats:
                for position in POSITIONS:
                    spec = make_spec(shape, Sset, Rset, frozenset(), mixin=mixin, raise_at=raise_at, position=position)
                    res.states += 1
                    case = loadcase.Case(spec)
                    check_load.cache.clear()
                    check_load.cache[id(spec)] = case
                    for i in range(n):
                        tree, _ = place_doc(position, doc_for(parents, i), doc_for(parents, n - 1))
                        text, back = case.R.checked(tree)
                        if text is None:
                            res.hist['render-mismatch'] += 1
                            continue
                        res.states += 1
                        check_load(res, spec, shape, Sset, Rset, position, i, text, parents, raise_at, fam)


# ---------------------------------------------------------------- dumping

def dump_space(res, shape, Wsets, mixin=None, fam='dump'):
    parents = SHAPES[shape]
    n = len(parents)
    for Wset in Wsets:
        spec = make_spec(shape, frozenset(), frozenset(), Wset, mixin=mixin, position='attr')
        b = models.build(spec)
        dumps = yatiml.dumps_function(*b.registered)
        dumps_json = yatiml.dumps_json_function(*b.registered)
        # the order in which the classes are given to the function must not matter (derived classes before their bases)
        dumps_rev = yatiml.dumps_function(*reversed(b.registered))
        res.states += 1
        for i in range(n):
            for position in ('top', 'list', 'dict', 'attr'):
                def mk(c):
                    return b.classes['C%d' % c](**{q: 1 for q in required_params(parents, c)})
                if position == 'top':
                    v, cls_at = mk(i), [((), i)]
                elif position == 'list':
                    v, cls_at = [mk(i), mk(n - 1)], [((0,), i), ((1,), n - 1)]
                elif position == 'dict':
                    v, cls_at = {'k': mk(i), 'l': mk(n - 1)}, [(('k',), i), (('l',), n - 1)]
                else:
                    v, cls_at = b.classes['H'](mk(i)), [(('h',), i)]
                for fn_name, fn in (('dumps', dumps), ('dumps_json', dumps_json), ('dumps[classes in reverse order]', dumps_rev)):
                    res.states += 1
                    res.transitions += 1
                    res.traces += 1
                    del LOG[:]
                    pl = {'spec': spec, 'model': models.source_of(spec), 'shape': shape, 'position': position, 'cls': i,
                          'W': sorted(Wset), 'side': 'dump', 'fn': fn_name, 'text': ''}
                    try:
                        text = fn(v)
                    except Exception as e:     # noqa
                        res.violation('C10:dump-failed:%s' % fam, '%s(%s) raised %s: %s' % (fn_name, show(v), type(e).__name__, e), pl)
                        continue
                    log = list(LOG)
                    pl['text'] = text
                    if any(set(ancestors_first(parents, c)) & Wset for _, c in cls_at):
                        res.nontrivial += 1
                    bad = [e for e in log if e[0] in ('savorize', 'sweeten', 'recognize') and (e[1] != e[2] or e[1] == 'Mx')]
                    if bad:
                        res.violation('C10:sweeten-of-%s-called:%s' % ('mixin' if bad[0][1] == 'Mx' else 'other-class', fam),
                                      'hook call %s while dumping %s' % (bad[0], show(v)), pl)
                        continue
                    data = yaml.safe_load(text)
                    ok = True
                    seq = []
                    for path, c in cls_at:
                        d = data
                        for h in path:
                            d = d[h]
                        lin = [j for j in ancestors_first(parents, c) if j in Wset]
                        exp = {'w_C%d' % j: k + 1 for k, j in enumerate(lin)}
                        got = {k: x for k, x in d.items() if k.startswith('w_')} if isinstance(d, dict) else None
                        seq += [('sweeten', 'C%d' % j, 'C%d' % j) for j in lin]
                        if got != exp and shape in MULTI and got and same_up_to_siblings(parents, exp, got):
                            seq[-len(lin):] = [('sweeten', 'C%d' % j, 'C%d' % j) for j in sorted(lin, key=lambda j: got['w_C%d' % j])] if lin else []
                            got = exp
                        if got != exp:
                            twice = bool(got) and any(isinstance(x, int) and x >= 100 for x in got.values())
                            what = 'twice' if twice else ('foreign' if got and any(k not in exp for k in got) else
                                                          ('missing' if got is not None and any(k not in got for k in exp) else 'order'))
                            res.violation('C10:sweeten-%s:%s' % (what, fam),
                                          '%s of %s: object C%d carries sweeten stamps %s, the rule gives %s; text %r' % (
                                              fn_name, show(v), c, got, exp, text), pl)
                            ok = False
                            break
                    if not ok:
                        continue
                    sw = [e for e in log if e[0] == 'sweeten']
                    if sw != seq:
                        res.violation('C10:sweeten-log:%s' % fam, 'sweeten calls %s, the rule gives %s' % (sw, seq), pl)
                        continue
                    res.hist['dump-ok:' + position] += 1
                    if Wset and position == 'attr' and fn_name == 'dumps':
                        res.sample({'shape': shape, 'sweeten_on': sorted(Wset), 'value': show(v), 'text': text}, 1)


def incremental_space(res, shape, Wsets):
    """the deprecated Dumper route with classes registered in two steps (first everything but the root class, then
    the root), and a dumper derived from that one: the hooks that run must follow the set registered AT THAT TIME"""
    import yatiml.dumper as yd
    parents = SHAPES[shape]
    n = len(parents)
    if n < 2:
        return
    for Wset in Wsets:
        spec = make_spec(shape, frozenset(), frozenset(), Wset, position='top')
        b = models.build(spec)

        class MyDumper(yd.Dumper):
            pass
        yd.add_to_dumper(MyDumper, [b.classes['C%d' % i] for i in range(1, n)])
        steps = [('without-root', MyDumper, set(range(1, n)))]
        res.states += 1
        for phase in range(3):
            if phase == 1:
                yd.add_to_dumper(MyDumper, [b.classes['C0']])
                steps = [('root-added', MyDumper, set(range(n)))]
            elif phase == 2:
                class Derived(MyDumper):
                    pass
                steps = [('derived-dumper', Derived, set(range(n)))]
            for label, D, reg in steps:
                for i in range(1, n):
                    v = b.classes['C%d' % i](**{q: 1 for q in required_params(parents, i)})
                    res.states += 1
                    res.transitions += 1
                    res.traces += 1
                    del LOG[:]
                    pl = {'spec': spec, 'model': models.source_of(spec), 'shape': shape, 'cls': i, 'W': sorted(Wset),
                          'side': 'incremental', 'text': ''}
                    try:
                        text = yaml.dump(v, Dumper=D)
                    except Exception as e:     # noqa
                        res.violation('C10:dump-failed:incremental', 'dump (%s) of %s raised %s: %s' % (label, show(v), type(e).__name__, e), pl)
                        continue
                    # registered ancestors reachable through registered direct bases only
                    lin = []
                    j = i
                    chain = []
                    while j is not None and j in reg:
                        chain.append(j)
                        j = parents[j]
                    for j in reversed(chain):
                        if j in Wset:
                            lin.append(j)
                    exp = {'w_C%d' % j: k + 1 for k, j in enumerate(lin)}
                    data = yaml.safe_load(text)
                    got = {k: x for k, x in data.items() if k.startswith('w_')} if isinstance(data, dict) else None
                    if lin:
                        res.nontrivial += 1
                    if got != exp:
                        res.violation('C10:sweeten-incremental:%s' % label,
                                      '%s: dump of %s carries sweeten stamps %s, the rule for the classes registered at that time (%s) gives %s' % (
                                          label, show(v), got, sorted(reg), exp), pl)
                    else:
                        res.hist['dump-ok:incremental'] += 1


# ---------------------------------------------------------------- enum and string-like classes (log based)

def _prep(meta, name, bases, members):
    d = meta.__prepare__(name, bases)
    for k, v in members.items():
        d[k] = v
    return d


def scalar_space(res):
    for kind in ('userstring', 'ystring', 'strsub'):
        for Sset in subsets(2):
            for Rset in subsets(2):
                classes = []
                for i in range(2):
                    hooks = {}
                    if i in Sset:
                        hooks['savorize'] = [('log',)]
                    if i in Rset:
                        hooks['recognize'] = [('require_scalar', ['str'])]
                    classes.append({'name': 'W%d' % i, 'kind': kind, 'bases': ['W%d' % (i - 1)] if i else [], 'hooks': hooks})
                for root, text, nobj in ((('cls', 'W1'), 'abc\n', 1), (('list', ('cls', 'W1')), '- abc\n- d\n', 2),
                                         (('dict', ('cls', 'W1'), ('cls', 'W1')), 'k: v\n', 2)):
                    spec = {'classes': classes, 'root': root}
                    res.states += 1
                    case = loadcase.Case(spec)
                    o = case.impl(text)
                    log = list(LOG)
                    res.traces += 1
                    res.transitions += 1
                    pl = loadcase.payload(spec, text, side='load-scalar', S=sorted(Sset), R=sorted(Rset))
                    exp = [('savorize', 'W%d' % j, 'W%d' % j) for j in (0, 1) if j in Sset] * nobj
                    if Sset or Rset:
                        res.nontrivial += 1
                    if o[0] != 'ok':
                        res.violation('C10:not-loaded:scalar', '%r as %s: %s' % (text, root, str(o[1])[:200]), pl)
                        continue
                    bad = [e for e in log if e[0] in ('savorize', 'recognize') and e[1] != e[2]]
                    sav = [e for e in log if e[0] == 'savorize']
                    if bad:
                        res.violation('C10:hook-called-for-other-class:scalar', 'hook call %s for %r' % (bad[0], text), pl)
                    elif sav != exp:
                        res.violation('C10:savorize-log:scalar', 'savorize calls %s for %r, the rule gives %s' % (sav, text, exp), pl)
                    else:
                        res.hist['load-ok:scalar-class'] += 1
    # dumping: _yatiml_sweeten of string-like classes follows the same rule (own-body hooks of the registered bases,
    # then the class's own; nothing inherited, nothing from an unregistered mix-in)
    for kind in ('userstring', 'ystring', 'strsub'):
        for Wset in subsets(2):
            for mix in (False, True):
                classes = []
                if mix:
                    classes.append({'name': 'Mw', 'kind': kind, 'registered': False, 'hooks': {'sweeten': [('log',)]}})
                for i in range(2):
                    hooks = {'sweeten': [('log',)]} if i in Wset else {}
                    bases = ['W%d' % (i - 1)] if i else (['Mw'] if mix else [])
                    classes.append({'name': 'W%d' % i, 'kind': kind, 'bases': bases, 'hooks': hooks})
                spec = {'classes': classes, 'root': ('cls', 'W1')}
                b = models.build(spec)
                for fn_name, mkfn in (('dumps', yatiml.dumps_function), ('dumps_json', yatiml.dumps_json_function)):
                    fn = mkfn(*b.registered)
                    for cname, lin in (('W1', [0, 1]), ('W0', [0])):
                        v = b.classes[cname]('abc')
                        del LOG[:]
                        res.states += 1
                        res.traces += 1
                        res.transitions += 1
                        pl = {'spec': spec, 'model': models.source_of(spec), 'side': 'dump-scalar', 'W': sorted(Wset), 'text': '',
                              'fn': fn_name}
                        try:
                            fn([v])
                        except Exception as e:     # noqa
                            res.violation('C10:dump-failed:scalar', '%s of %s raised %s: %s' % (fn_name, cname, type(e).__name__, e), pl)
                            continue
                        sw = [e for e in LOG if e[0] == 'sweeten']
                        once = [('sweeten', 'W%d' % j, 'W%d' % j) for j in lin if j in Wset]
                        if Wset:
                            res.nontrivial += 1
                        # the object is referred to twice: represented (and sweetened) once, or once per reference
                        if sw != once:
                            bad = [e for e in sw if e[1] != e[2] or e[1] == 'Mw']
                            what = 'mixin' if any(e[1] == 'Mw' for e in sw) else ('other-class' if bad else 'count')
                            res.violation('C10:sweeten-scalar-class-%s:%s' % (what, kind),
                                          '%s of a %s(%s) object: sweeten calls %s, the rule gives %s' % (fn_name, cname, kind, sw, once), pl)
                        else:
                            res.hist['dump-ok:scalar-class'] += 1
    for Wbase in (False, True):
        for mix in (False, True):
            # an enum with members cannot be subclassed; the hooks can sit on a member-less base enum or a mix-in
            import enum as _enum
            ns = {}

            def mk(name):
                def hook(cls, node):
                    LOG.append(('sweeten', name, cls.__name__))
                return classmethod(hook)

            class Lower:
                _yatiml_sweeten = mk('Mixin')
            BaseE = _enum.Enum('BaseE', {})
            if Wbase:
                BaseE._yatiml_sweeten = mk('BaseE')
            bases = ((Lower,) if mix else ()) + (BaseE,)
            Col = BaseE.__class__('Col', bases, _prep(BaseE.__class__, 'Col', bases, {'RED': 1, 'GREEN': 2}))
            Col._yatiml_sweeten = mk('Col')
            for reg in ([BaseE, Col], [Col]):
                fn = yatiml.dumps_function(*reg)
                del LOG[:]
                res.states += 1
                res.traces += 1
                res.transitions += 1
                pl = {'spec': {'classes': [], 'root': 'any'}, 'model': ['enum Col(%sBaseE) registered: %s' % ('Lower, ' if mix else '', [c.__name__ for c in reg])],
                      'side': 'dump-scalar', 'W': [], 'text': '', 'fn': 'dumps'}
                try:
                    fn([Col.RED])
                except Exception as e:     # noqa
                    res.violation('C10:dump-failed:enum', 'dumps raised %s: %s' % (type(e).__name__, e), pl)
                    continue
                sw = [e for e in LOG if e[0] == 'sweeten']
                exp = ([('sweeten', 'BaseE', 'BaseE')] if (Wbase and BaseE in reg) else []) + [('sweeten', 'Col', 'Col')]
                res.nontrivial += 1
                if sw != exp:
                    res.violation('C10:sweeten-enum:%s' % ('mixin' if any(e[1] == 'Mixin' for e in sw) else 'base'),
                                  'dumps of Col.RED (registered %s): sweeten calls %s, the rule gives %s' % (
                                      [c.__name__ for c in reg], sw, exp), pl)
                else:
                    res.hist['dump-ok:enum'] += 1
    for has_s in (False, True):
        for has_r in (False, True):
            hooks = {}
            if has_s:
                hooks['savorize'] = [('log',)]
            if has_r:
                hooks['recognize'] = [('require_scalar', ['str', 'bool'])]
            spec = {'classes': [{'name': 'En', 'kind': 'enum', 'members': ['a', 'true'], 'hooks': hooks}],
                    'root': ('list', ('cls', 'En'))}
            case = loadcase.Case(spec)
            text = '- a\n- true\n'
            o = case.impl(text)
            log = list(LOG)
            res.states += 1
            res.traces += 1
            res.transitions += 1
            pl = loadcase.payload(spec, text, side='load-scalar', S=[0] if has_s else [], R=[0] if has_r else [])
            exp = [('savorize', 'En', 'En')] * (2 if has_s else 0)
            if o[0] != 'ok':
                res.violation('C10:not-loaded:enum', '%r: %s' % (text, str(o[1])[:200]), pl)
            elif [e for e in log if e[0] == 'savorize'] != exp:
                res.violation('C10:savorize-log:enum', 'savorize calls %s, the rule gives %s' % (log, exp), pl)
            else:
                res.hist['load-ok:enum'] += 1


def run_unit(unit, tier):
    res = core.Result()
    kind = unit[0]
    if kind == 'scalar-classes':
        scalar_space(res)
        return res
    shape = unit[1]
    n = len(SHAPES[shape])
    allsub = list(subsets(n))
    if kind == 'load':
        load_space(res, shape, [allsub[unit[2]]], allsub)
    elif kind == 'dump':
        dump_space(res, shape, allsub)
    elif kind == 'mixin':
        mixin = tuple(unit[2:])
        few = [frozenset(), frozenset(range(n)), frozenset([unit[2]]), frozenset([0])]
        Ssets = allsub if tier == 'thorough' else list(dict.fromkeys(few))
        Rsets = list(dict.fromkeys(few)) if tier == 'thorough' else [frozenset(), frozenset(range(n))]
        load_space(res, shape, Ssets, Rsets, mixin=mixin, fam='mixin')
        dump_space(res, shape, Ssets, mixin=mixin, fam='mixin')
    elif kind == 'incremental':
        incremental_space(res, shape, allsub)
    elif kind == 'raise':
        Ssets = [frozenset(), frozenset(range(n))]
        load_space(res, shape, Ssets, [frozenset(), frozenset(range(n))], raise_ats=list(range(n)), fam='raise')
    res.hist['units:' + kind] += 1
    return res


def finish(total, tier):
    for k, n in (('load-ok:top', 200), ('load-ok:list', 200), ('load-ok:dict', 200), ('load-ok:attr', 200), ('load-ok:union', 200),
                 ('dump-ok:top', 100), ('dump-ok:attr', 100), ('seasoning-error->RecognitionError', 50),
                 ('load-ok:scalar-class', 30), ('load-ok:enum', 4)):
        if total.hist[k] < n:
            raise core.Vacuous('%s reached only %d times' % (k, total.hist[k]))


def replay(payload):
    spec = payload['spec']
    res = core.Result()
    side = payload['side']
    shape = payload.get('shape')
    if side == 'load':
        parents = SHAPES[shape]
        check_load.cache.clear()
        check_load(res, spec, shape, frozenset(payload['S']), frozenset(payload['R']), payload['position'], payload['cls'],
                   payload['text'], parents, payload.get('raise_at'), 'replay')
    elif side == 'dump':
        mixin = None
        for c in spec['classes']:
            if 'Mx' in c.get('bases', []):
                mixin = (int(c['name'][1:]), 'before' if c['bases'][0] == 'Mx' else 'after')
        # re-run the whole (small) sweeten-subset space of this shape for the recorded subset only
        dump_space(res, shape, [frozenset(payload['W'])], mixin=mixin, fam='replay')
    elif side == 'incremental':
        incremental_space(res, shape, [frozenset(payload['W'])])
    else:
        scalar_space(res)
    if res.violations:
        return True, res.violations[0]['what']
    return False, 'hook calls follow the rule on this case'
