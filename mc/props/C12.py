"""C12 - every source and sink kind gives the same result.

Loading: (model, document) pairs (accepted, rejected, YAML errors; CRLF / CR line ends, a
BOM, non-ASCII, block scalars) x source in {str, Path, text file, binary file, StringIO,
BytesIO}.  Dumping: (dump function, value, indent, ensure_ascii) x sink in {file name,
Path, open text file, StringIO}; the bytes written must decode to the text the dumps twin
returns.
"""
import atexit
import io
import os
import pathlib
import re
import shutil
import tempfile

import yaml
import yatiml

from mc import catalog, core, docs, dumpcat, loadcase, models, values
from mc.loadcase import eqv, show
from mc.props import C06

PROPERTY = 'C12'
RULE = ('choice tree: case x source/sink kind; every leaf runs the real load / dump function on a real file, path or '
        'stream in a private temporary directory and compares with the str source / dumps twin; non-trivial = cases '
        'whose outcomes are all compared pairwise (one per case and kind)')
ASSUMPTIONS = [
    'error equality = same exception type, same message after removing the source name and PyYAML\'s source snippet '
    '(which only in-memory sources have), same line/column',
    'PYTHONUTF8=1: files are opened as UTF-8 (the library opens paths with the default encoding)',
]
SOURCES = ['str', 'path', 'textfile', 'binfile', 'stringio', 'bytesio', 'bytesio-utf16', 'binfile-utf16', 'bytesio-utf8sig']
SINKS = ['filename', 'path', 'textfile', 'stringio',
         # an open stream is written at its current position: text written before stays, nothing is added between
         'stringio-after-header', 'textfile-after-header', 'textfile-append',
         # text streams whose encoding is not UTF-8 (only when the text can be encoded that way)
         'textfile-latin-1', 'textfile-cp1251', 'textfile-utf-16', 'textfile-gb18030']
HEADER = '# written by the caller before dumping\n'


def BOUNDS(tier):
    return {'load_models': len(load_models(tier)), 'docs_per_model': 10 if tier == 'quick' else 40,
            'dump_families': len(C06.families()), 'sources': SOURCES, 'sinks': SINKS}


_TMP = None


def tmpdir():
    global _TMP
    if _TMP is None or _TMP[0] != os.getpid():
        d = tempfile.mkdtemp(prefix='verif_c12_')
        pid = os.getpid()
        _TMP = (pid, d)

        def cleanup(d=d, pid=pid):
            if os.getpid() == pid:
                shutil.rmtree(d, ignore_errors=True)
        atexit.register(cleanup)
    return _TMP[1]


def load_models(tier):
    ms = catalog.all_load_models('quick')
    step = 6 if tier == 'quick' else 2
    return [m for i, m in enumerate(ms) if i % step == 0]


SPECIAL_TEXTS = [
    'a: 1\r\nb: x\r\n', 'a: 1\rb: x\r', '\ufeffa: 1\n', 'a: \xe9\xfc\n', 'k: \U0001F600\n', 'a: |\n  line1\n  line2\n', 'a: >-\r\n  folded\r\n  text\r\n',
    '- [unclosed\n', 'a: b: c\n', '\tbad: tab\n', 'a: &x 1\nb: *y\n', '--- 1\n--- 2\n', 'a: "\\q"\n', '', '# comment only\r\n',
    'x: 1\ny: !!python/object:os.system {}\n', 'a: \x85 b\n', '- 1\n- \xa0\n', '"\\ud800"', 'a: \u2028b\n',
    # JSON surrogate-pair escapes, near the start and beyond the first blocks a stream reader hands to the scanner
    '"\\ud83d\\ude00"', 'k: "a\\ud83d\\ude00b"\n', '["\\ud83d", "\\ude00", "\\ude00\\ud83d"]',
    'a: 1\n' + '# filler line of some length ........................\n' * 400 + 'k: "x\\ud83d\\ude00y"\nl: ["\\ud83d\\ude00"]\n',
    '{"a": "' + 'x' * 9000 + '", "\\ud83d\\ude00": ["\\ud83d\\ude00", "' + 'y' * 5000 + '\\ud83d\\ude00"]}',
]


# documents given as BYTES (what a file may really contain): only the byte-level source kinds apply, and they
# must agree with each other
SPECIAL_BYTES = [
    'a: caf\xe9 \u20ac\n'.encode('utf-16'), 'k: [1, 2]\n'.encode('utf-16-le'), b'\xef\xbb\xbfa: 1\n', b'a: \xff\xfe\n', b'a: \xe9\n',
    b'a: b\r\nc: d\x07\r\n', b'%\r\na: 1\r\n', b'a: !!\rb: 1\r', b'a: "x\r\ny"\r\n', 'a: \u00e9\r\n'.encode('utf-8'),
    '- \U0001F600\n'.encode('utf-16-be'), b'', b'\xff',
]
BYTE_SOURCES = ['bytesio', 'binfile', 'path']


def load_bytes_outcome(load, kind, data, name):
    d = tmpdir()
    p = os.path.join(d, name)
    try:
        if kind == 'bytesio':
            return ('ok', load(io.BytesIO(data)))
        with open(p, 'wb') as f:
            f.write(data)
        if kind == 'path':
            return ('ok', load(pathlib.Path(p)))
        with open(p, 'rb') as f:
            return ('ok', load(f))
    except (yatiml.RecognitionError, yaml.YAMLError) as e:
        return ('err',) + normalise_error(e)
    except Exception as e:     # noqa
        return ('exc', type(e).__name__, str(e)[:200])


def normalise_error(e):
    msg = str(e)
    msg = re.sub(r'in "[^"]*", line', 'in <source>, line', msg)
    msg = re.sub(r'in "[^"]*", position', 'in <source>, position', msg)
    msg = re.sub(r'(line \d+, column \d+):(?=\n|$)', r'\1', msg)      # the colon announces the snippet
    lines = [ln for ln in msg.split('\n') if not ln.startswith('    ')]
    return (type(e).__name__, '\n'.join(lines))


def load_outcome(load, kind, text, name):
    d = tmpdir()
    p = os.path.join(d, name)
    try:
        if kind == 'str':
            return ('ok', load(text))
        if kind == 'stringio':
            return ('ok', load(io.StringIO(text)))
        if kind in ('bytesio-utf16', 'binfile-utf16'):
            data = text.encode('utf-16')          # with byte-order mark, which is how YAML announces UTF-16
        elif kind == 'bytesio-utf8sig':
            data = text.encode('utf-8-sig')
        else:
            data = text.encode('utf-8')
        if kind.startswith('bytesio'):
            return ('ok', load(io.BytesIO(data)))
        with open(p, 'wb') as f:
            f.write(data)
        if kind == 'path':
            return ('ok', load(pathlib.Path(p)))
        if kind == 'textfile':
            with open(p, 'r', encoding='utf-8', newline='') as f:
                return ('ok', load(f))
        with open(p, 'rb') as f:
            return ('ok', load(f))
    except (yatiml.RecognitionError, yaml.YAMLError) as e:
        return ('err',) + normalise_error(e)
    except Exception as e:     # noqa
        return ('exc', type(e).__name__, str(e)[:200])


def encodable(text):
    try:
        text.encode('utf-8')
        return True
    except UnicodeEncodeError:
        return False


def run_load(unit, tier, res):
    fam, spec = load_models(tier)[unit]
    case = loadcase.Case(spec)
    ds = loadcase.document_set(spec, case, tier, tags=['!Unknown'], n_mut=2, tiny_n=1)
    lim = BOUNDS(tier)['docs_per_model']
    texts = []
    for kind, site, tree in ds:
        try:
            texts.append(case.R.render(tree))
        except yaml.YAMLError:
            pass
        if len(texts) >= lim:
            break
    texts += SPECIAL_TEXTS
    for i, text in enumerate(texts):
        if not encodable(text):
            continue
        res.states += 1
        base = load_outcome(case.load, 'str', text, 'doc.yaml')
        res.nontrivial += 1
        res.hist['load:' + base[0]] += 1
        for src in SOURCES[1:]:
            if src in ('bytesio-utf16', 'binfile-utf16', 'bytesio-utf8sig') and text.startswith('\ufeff'):
                continue                              # the text has a byte-order mark of its own already
            res.transitions += 1
            res.traces += 1
            o = load_outcome(case.load, src, text, 'doc.yaml')
            same = (o[0] == base[0] == 'ok' and eqv(o[1], base[1])) or (o[0] != 'ok' and o == base)
            if not same:
                res.violation('C12:load:%s-differs:%s' % (src, o[0] + '/' + base[0]),
                              'document %r as %s: from a str -> %s; from %s -> %s' % (
                                  text, spec['root'], show(base[1:]), src, show(o[1:])),
                              {'kind': 'load', 'spec': spec, 'text': text, 'source': src})
        if i == 0:
            res.sample({'kind': 'load', 'root': str(spec['root']), 'text': text, 'outcome': base[0]}, 1)
    if unit % 8 == 0:
        for data in SPECIAL_BYTES:
            res.states += 1
            base = load_bytes_outcome(case.load, 'bytesio', data, 'doc.yaml')
            res.hist['load-bytes:' + base[0]] += 1
            for src in BYTE_SOURCES[1:]:
                res.transitions += 1
                res.traces += 1
                o = load_bytes_outcome(case.load, src, data, 'doc.yaml')
                same = (o[0] == base[0] == 'ok' and eqv(o[1], base[1])) or (o[0] != 'ok' and o == base)
                if not same:
                    res.violation('C12:load-bytes:%s-differs:%s' % (src, o[0] + '/' + base[0]),
                                  'bytes %r as %s: from BytesIO -> %s; from %s -> %s' % (
                                      data, spec['root'], show(base[1:]), src, show(o[1:])),
                                  {'kind': 'load-bytes', 'spec': spec, 'data': list(data), 'source': src, 'text': ''})
        undecodable_text_stream(case, spec, res)


def undecodable_text_stream(case, spec, res):
    """a text stream whose bytes are not valid in its encoding has no str form; whatever the load function reports for
    it must not depend on WHERE in the file the bad byte is (first read vs a later read while scanning)"""
    outs = []
    for where, data in (('early', b'a: \xff\n'), ('late', b'a: 1\n' + b'# filler line\n' * 3000 + b'b: \xff\n'),
                        ('late-in-error', b'@oops\n' + b'# filler line\n' * 3000 + b'b: \xff\n')):
        d = tmpdir()
        p = os.path.join(d, 'undecodable.yaml')
        with open(p, 'wb') as f:
            f.write(data)
        res.transitions += 1
        res.traces += 1
        try:
            with open(p, 'r', encoding='utf-8') as f:
                case.load(f)
            outs.append((where, 'ok'))
        except Exception as e:     # noqa
            outs.append((where, type(e).__name__))
    res.hist['undecodable-text-stream:' + outs[0][1]] += 1
    if outs[0][1] != outs[1][1]:
        res.violation('C12:undecodable-text-stream:%s/%s' % (outs[0][1], outs[1][1]),
                      'a UTF-8 text stream over a file with the byte 0xff: %s when the byte is in the first line, %s when it comes '
                      'after 40 kB of comments' % (outs[0][1], outs[1][1]),
                      {'kind': 'undecodable', 'spec': spec, 'text': ''})


def dump_variants(dump, dumpj):
    """(name, callable(value, sink))"""
    out = [('yaml', lambda v, s: dump(v, s))]
    for ind in (None, 0, 2):
        for ea in (True, False):
            out.append(('json-indent=%r-ascii=%r' % (ind, ea), lambda v, s, ind=ind, ea=ea: dumpj(v, s, indent=ind, ensure_ascii=ea)))
    return out


def sink_can_hold(sink, text):
    for enc in ('latin-1', 'cp1251', 'utf-16', 'gb18030'):
        if sink == 'textfile-' + enc:
            try:
                return text.encode(enc).decode(enc) == text
            except UnicodeError:
                return False
    return True


def write_to(fn, v, sink, name):
    d = tmpdir()
    p = os.path.join(d, name)
    # the target already exists and is longer than anything we dump: a sink has to replace it
    with open(p, 'w', encoding='utf-8') as f:
        f.write('# old content\n' + 'old: line that must disappear\n' * 400)
    if sink == 'stringio':
        s = io.StringIO()
        fn(v, s)
        return s.getvalue()
    if sink == 'stringio-after-header':
        s = io.StringIO()
        s.write(HEADER)
        fn(v, s)
        got = s.getvalue()
        return got[len(HEADER):] if got.startswith(HEADER) else 'HEADER LOST: ' + got
    if sink in ('textfile-after-header', 'textfile-append'):
        if sink == 'textfile-append':
            with open(p, 'w', encoding='utf-8', newline='') as f:
                f.write(HEADER)
        with open(p, 'a' if sink == 'textfile-append' else 'w', encoding='utf-8', newline='') as f:
            if sink == 'textfile-after-header':
                f.write(HEADER)
            fn(v, f)
        got = open(p, 'rb').read().decode('utf-8')
        return got[len(HEADER):] if got.startswith(HEADER) else 'HEADER LOST: ' + got
    if sink.startswith('textfile-'):
        enc = sink[len('textfile-'):]
        with open(p, 'w', encoding=enc, newline='') as f:
            fn(v, f)
        return open(p, 'rb').read().decode(enc)
    if sink == 'filename':
        fn(v, p)
    elif sink == 'path':
        fn(v, pathlib.Path(p))
    else:
        with open(p, 'w', encoding='utf-8', newline='') as f:
            fn(v, f)
    with open(p, 'rb') as f:
        return f.read().decode('utf-8').replace('\r\n', '\n') if False else open(p, 'rb').read().decode('utf-8')


def run_dump(unit, tier, res):
    name, spec, maker = C06.families()[unit]
    b = models.build(spec)
    dump = yatiml.dump_function(*b.registered)
    dumpj = yatiml.dump_json_function(*b.registered)
    dumps = yatiml.dumps_function(*b.registered)
    dumpsj = yatiml.dumps_json_function(*b.registered)
    vals = maker(b)
    if tier == 'quick':
        vals = vals[:6]
    for j in range(len(vals)):
        for vname, fn in dump_variants(dump, dumpj):
            v = maker(b)[j]
            res.states += 1
            try:
                if vname == 'yaml':
                    want = dumps(v)
                else:
                    ind = eval(vname.split('indent=')[1].split('-ascii')[0])
                    ea = vname.endswith('True')
                    want = dumpsj(v, indent=ind, ensure_ascii=ea)
            except Exception as e:     # noqa
                res.hist['dumps-raises:' + type(e).__name__] += 1
                continue
            if not encodable(want):
                res.hist['not-encodable'] += 1
                continue
            res.nontrivial += 1
            for sink in SINKS:
                if not sink_can_hold(sink, want):
                    res.hist['sink-encoding-cannot-hold-text'] += 1
                    continue
                res.transitions += 1
                res.traces += 1
                try:
                    got = write_to(fn, maker(b)[j], sink, 'out.txt')
                except Exception as e:     # noqa
                    got = '%s: %s' % (type(e).__name__, e)
                if got != want:
                    res.violation('C12:dump:%s:%s' % (sink, vname.split('-')[0]),
                                  '%s of %s to a %s wrote %r, the dumps twin returns %r' % (vname, show(v), sink, got, want),
                                  {'kind': 'dump', 'family': name, 'index': j, 'variant': vname, 'sink': sink})
                else:
                    res.hist['dump-identical'] += 1
        if j == 0:
            res.sample({'kind': 'dump', 'family': name, 'value': show(vals[0])}, 1)


STR_POSITIONS = ['top', 'dict-key', 'class-attr', 'any', 'userstring', 'list-item', 'extra-attr']


def run_dump_strings(pos, tier, res):
    """every fixed string (non-ASCII, line breaks, look-alikes, long lines ...) at one position, through every
    dump variant and sink"""
    spec = dumpcat.string_spec(pos)
    b = models.build(spec)
    mk = dumpcat.STRING_POSITIONS[pos][2]
    dump = yatiml.dump_function(*b.registered)
    dumpj = yatiml.dump_json_function(*b.registered)
    dumps = yatiml.dumps_function(*b.registered)
    dumpsj = yatiml.dumps_json_function(*b.registered)
    for s in dumpcat.fixed_strings():
        for vname, fn in dump_variants(dump, dumpj):
            res.states += 1
            try:
                v = mk(b, s)
                if vname == 'yaml':
                    want = dumps(v)
                else:
                    ind = eval(vname.split('indent=')[1].split('-ascii')[0])
                    want = dumpsj(v, indent=ind, ensure_ascii=vname.endswith('True'))
            except Exception as e:     # noqa
                res.hist['dumps-raises:' + type(e).__name__] += 1
                continue
            if not encodable(want):
                res.hist['not-encodable'] += 1
                continue
            if not want.isascii() or '\n' in want[:-1]:
                res.nontrivial += 1
            for sink in SINKS:
                if not sink_can_hold(sink, want):
                    res.hist['sink-encoding-cannot-hold-text'] += 1
                    continue
                res.transitions += 1
                res.traces += 1
                try:
                    got = write_to(fn, mk(b, s), sink, 'out.txt')
                except Exception as e:     # noqa
                    got = '%s: %s' % (type(e).__name__, e)
                if got != want:
                    res.violation('C12:dump:%s:%s' % (sink, vname.split('-')[0]),
                                  '%s of %s to a %s wrote %r, the dumps twin returns %r' % (vname, show(v), sink, got, want),
                                  {'kind': 'dumpstr', 'position': pos, 'string': s, 'variant': vname, 'sink': sink})
                else:
                    res.hist['dump-identical'] += 1
                    if not want.isascii():
                        res.hist['dump-identical-non-ascii'] += 1


LOCALE_SCRIPT = r'''
import io, json, locale, os, pathlib, sys, tempfile
import yatiml
out = {'preferred_encoding': locale.getpreferredencoding(False), 'mismatches': [], 'cases': 0}
d = tempfile.mkdtemp(prefix='verif_c12_locale_')
def rec(what, a, b):
    out['cases'] += 1
    if a != b:
        out['mismatches'].append([what, repr(a)[:200], repr(b)[:200]])
def outcome(f):
    try:
        return ['ok', f()]
    except Exception as e:
        return ['exc', type(e).__name__]
texts = ['a: caf\u00e9\n', 'k: [\u20ac, "\U0001F600"]\n', 'plain: ascii\n']
load = yatiml.load_function()
for i, t in enumerate(texts):
    p = pathlib.Path(d) / ('doc%d.yaml' % i)
    p.write_bytes(t.encode('utf-8'))
    base = outcome(lambda: load(t))
    rec('load Path vs str: %r' % t, outcome(lambda: load(p)), base)
    with open(str(p), 'rb') as f:
        rec('load binary stream vs str: %r' % t, outcome(lambda: load(f)), base)
values = [{'k': 'caf\u00e9'}, ['\u20ac', {'x': '\U0001F600'}], {'plain': 'ascii'}]
dumps, dump = yatiml.dumps_function(), yatiml.dump_function()
dumpsj, dumpj = yatiml.dumps_json_function(), yatiml.dump_json_function()
for i, v in enumerate(values):
    for name, twin, fn, kw in (('yaml', dumps, dump, {}), ('json', dumpsj, dumpj, {}), ('json-unicode', dumpsj, dumpj, {'ensure_ascii': False}),
                               ('json-unicode-indent', dumpsj, dumpj, {'ensure_ascii': False, 'indent': 2})):
        want = outcome(lambda: twin(v, **kw))
        for sink in ('filename', 'path'):
            p = os.path.join(d, 'out%d.txt' % i)
            def write():
                fn(v, p if sink == 'filename' else pathlib.Path(p), **kw)
                with open(p, 'rb') as f:
                    return f.read().decode('utf-8')
            rec('%s of %r to a %s vs the dumps twin' % (name, v, sink), outcome(write), want)
import shutil
shutil.rmtree(d, ignore_errors=True)
print(json.dumps(out))
'''


def run_locale(res):
    """the same comparisons in an interpreter whose locale encoding is not UTF-8 (LC_ALL=C, UTF-8 mode off), as on
    many Windows installations: what a Path source / a path sink reads and writes must not depend on the locale"""
    import json
    import subprocess
    import sys
    env = dict(os.environ, LC_ALL='C', LANG='C', PYTHONUTF8='0', PYTHONCOERCECLOCALE='0', PYTHONIOENCODING='utf-8')
    script = os.path.join(tmpdir(), 'locale_probe.py')
    with open(script, 'w', encoding='utf-8') as f:
        f.write(LOCALE_SCRIPT)
    r = subprocess.run([sys.executable, script], env=env, stdout=subprocess.PIPE, stderr=subprocess.PIPE, text=True,
                       encoding='utf-8', timeout=300)
    if r.returncode != 0:
        raise core.HarnessError('locale sub-process failed: %s' % r.stderr[-500:])
    out = json.loads(r.stdout.strip().split('\n')[-1])
    res.extra['locale_encoding'] = out['preferred_encoding']
    res.states += out['cases']
    res.transitions += out['cases']
    res.traces += out['cases']
    res.nontrivial += out['cases']
    res.hist['locale-cases'] += out['cases']
    for what, a, b in out['mismatches']:
        res.violation('C12:locale:%s' % ('load' if what.startswith('load') else 'dump'),
                      'under a non-UTF-8 locale (%s): %s: %s vs %s' % (out['preferred_encoding'], what, a, b),
                      {'kind': 'locale', 'text': '', 'spec': {'classes': [], 'root': 'any'}})


def units(tier):
    return [('locale',)] + [('load', i) for i in range(len(load_models(tier)))] + [('dump', i) for i in range(len(C06.families()))] + \
        [('dumpstr', p) for p in (STR_POSITIONS[:4] if tier == 'quick' else STR_POSITIONS)]


def run_unit(unit, tier):
    res = core.Result()
    if unit[0] == 'locale':
        run_locale(res)
    elif unit[0] == 'load':
        run_load(unit[1], tier, res)
    elif unit[0] == 'dumpstr':
        run_dump_strings(unit[1], tier, res)
    else:
        run_dump(unit[1], tier, res)
    return res


def finish(total, tier):
    if total.hist['load:ok'] < 100 or total.hist['load:err'] < 100 or total.hist['dump-identical'] < 1000 or total.hist['dump-identical-non-ascii'] < 100:
        raise core.Vacuous('load ok=%d err=%d dump=%d' % (total.hist['load:ok'], total.hist['load:err'], total.hist['dump-identical']))


def replay(payload):
    res = core.Result()
    if payload['kind'] == 'locale':
        run_locale(res)
        return bool(res.violations), (res.violations[0]['what'] if res.violations else 'no difference under a non-UTF-8 locale')
    if payload['kind'] == 'undecodable':
        undecodable_text_stream(loadcase.Case(payload['spec']), payload['spec'], res)
        return bool(res.violations), (res.violations[0]['what'] if res.violations else 'the same exception for both positions')
    if payload['kind'] == 'load-bytes':
        case = loadcase.Case(payload['spec'])
        data = bytes(payload['data'])
        base = load_bytes_outcome(case.load, 'bytesio', data, 'doc.yaml')
        o = load_bytes_outcome(case.load, payload['source'], data, 'doc.yaml')
        same = (o[0] == base[0] == 'ok' and eqv(o[1], base[1])) or (o[0] != 'ok' and o == base)
        return (not same), 'from BytesIO: %s; from %s: %s' % (show(base[1:]), payload['source'], show(o[1:]))
    if payload['kind'] == 'load':
        case = loadcase.Case(payload['spec'])
        base = load_outcome(case.load, 'str', payload['text'], 'doc.yaml')
        o = load_outcome(case.load, payload['source'], payload['text'], 'doc.yaml')
        same = (o[0] == base[0] == 'ok' and eqv(o[1], base[1])) or (o[0] != 'ok' and o == base)
        return (not same), 'from str: %s; from %s: %s' % (show(base[1:]), payload['source'], show(o[1:]))
    if payload['kind'] == 'dumpstr':
        b = models.build(dumpcat.string_spec(payload['position']))
        mk = dumpcat.STRING_POSITIONS[payload['position']][2]
        vname = payload['variant']
        fn = dict(dump_variants(yatiml.dump_function(*b.registered), yatiml.dump_json_function(*b.registered)))[vname]
        v = mk(b, payload['string'])
        if vname == 'yaml':
            want = yatiml.dumps_function(*b.registered)(v)
        else:
            want = yatiml.dumps_json_function(*b.registered)(v, indent=eval(vname.split('indent=')[1].split('-ascii')[0]),
                                                             ensure_ascii=vname.endswith('True'))
        got = write_to(fn, mk(b, payload['string']), payload['sink'], 'out.txt')
        return got != want, 'sink wrote %r, dumps returns %r' % (got, want)
    for name, spec, maker in C06.families():
        if name == payload['family']:
            b = models.build(spec)
            dump = yatiml.dump_function(*b.registered)
            dumpj = yatiml.dump_json_function(*b.registered)
            dumps = yatiml.dumps_function(*b.registered)
            dumpsj = yatiml.dumps_json_function(*b.registered)
            vname = payload['variant']
            fn = dict(dump_variants(dump, dumpj))[vname]
            v = maker(b)[payload['index']]
            if vname == 'yaml':
                want = dumps(v)
            else:
                want = dumpsj(v, indent=eval(vname.split('indent=')[1].split('-ascii')[0]), ensure_ascii=vname.endswith('True'))
            got = write_to(fn, maker(b)[payload['index']], payload['sink'], 'out.txt')
            return got != want, 'sink wrote %r, dumps returns %r' % (got, want)
    return False, 'case not found'
