"""C14 - yatiml.Node accessors behave like an ordered map and a typed scalar.

(a) breadth-first search over all accessor call sequences up to depth 4/5 from every initial
    mapping over keys {a, b}; every transition replays the whole history on a fresh real
    Node and is compared (return value and resulting state) with an OrderedDict model;
    states are canonicalised to the list of (key, tag, plain value);
(b) scalar laws: get_value() on every parsed scalar spelling equals what load constructs;
    set_value(v); get_value() == v and is_scalar(type(v)); the three is_* classify every node;
(c) remove_attributes_with_default_values over every (default, value) pair.
"""
import collections
import itertools
import math

import yaml
import yatiml

from mc import core, docs, models
from mc.models import P, to_node, view, norm_tree
from mc.props import C09

PROPERTY = 'C14'
RULE = ('(a) explicit-state BFS: state = ordered (key, tag, value) list of the wrapped mapping, transitions = accessor '
        'calls with arguments from small alphabets, each executed on a fresh real Node by replaying its history and '
        'compared with an OrderedDict model; (b)/(c) exhaustive enumeration of scalar spellings, (value, node kind) and '
        '(default, value) pairs; non-trivial = transitions that change the state or report an absent key, scalar '
        'spellings that are not plain strings, (default, value) pairs of equal kind')
ASSUMPTIONS = [
    'canonical state = (key, tag, value) list: sound because no accessor reads marks, styles or flow flags',
    'mapping keys are distinct strings (the domain the property states)',
    'cross-kind numeric equalities (1 == True == 1.0) and nan defaults are accepted either way in (c)',
]
KEYS = ['a', 'b', 'c']
VALS = collections.OrderedDict([
    ('vs', (('s', P + 'str', 's'), 's')), ('vi', (('s', P + 'int', '1'), 1)), ('vf', (('s', P + 'float', '1.5'), 1.5)),
    ('vb', (('s', P + 'bool', 'true'), True)), ('vn', (('s', P + 'null', ''), None)),
])
NODEVAL = ('q', P + 'seq', (('s', P + 'int', '7'),))
TYPES = collections.OrderedDict([('str', str), ('int', int), ('float', float), ('bool', bool), ('none', None),
                                 ('list', list), ('dict', dict)])
TAG_OF = {'str': 'str', 'int': 'int', 'float': 'float', 'bool': 'bool', 'none': 'null'}


def BOUNDS(tier):
    return {'sequence_depth': 4 if tier == 'quick' else 5, 'keys': KEYS, 'values': list(VALS) + ['NODE'],
            'scalar_spelling_maxlen': 3 if tier == 'quick' else 4,
            'defaults_history_depth': 3 if tier == 'quick' else 4, 'defaults_history_families': len(hist_families())}


KEYS2 = ['a_b', 'a-b', 'c']      # second profile: keys that the dash / underscore helpers respell


def ops(state, keys=None):
    keys = keys or KEYS
    present = [k for k, _ in state]
    if keys is KEYS2:
        # the key-respelling helpers, when they do not make two keys equal (outside the domain)
        for name, a, b in (('unders', '-', '_'), ('dashes', '_', '-')):
            new = [k.replace(a, b) for k in present]
            if len(set(new)) == len(new):
                yield (name,)
        for k in keys:
            yield ('has', k)
            yield ('get', k)
            yield ('remove', k)
            for v in ('vi', 'NODE'):
                yield ('set', k, v)
            for k2 in keys:
                if k2 == k or k2 not in present:
                    yield ('rename', k, k2)
        return
    for k in KEYS:
        yield ('has', k)
        yield ('get', k)
        yield ('remove', k)
        for v in list(VALS) + ['NODE']:
            yield ('set', k, v)
        for k2 in KEYS:
            # renaming to a *different* existing key would create duplicate keys (outside the domain);
            # renaming a key to itself is a no-op on an ordered dictionary
            if k2 == k or k2 not in present:
                yield ('rename', k, k2)
        for t in TYPES:
            yield ('hastype', k, t)


def tmatch(v, t):
    if t == 'list':
        return v[0] == 'q'
    if t == 'dict':
        return v[0] == 'm'
    return v[0] == 's' and v[1] == P + TAG_OF[t]


def model(state, op):
    d = collections.OrderedDict(state)
    if op[0] == 'has':
        return state, op[1] in d
    if op[0] == 'get':
        return state, (d[op[1]] if op[1] in d else 'ABSENT')
    if op[0] == 'remove':
        d.pop(op[1], None)
        return tuple(d.items()), None
    if op[0] == 'set':
        d[op[1]] = NODEVAL if op[2] == 'NODE' else VALS[op[2]][0]
        return tuple(d.items()), None
    if op[0] == 'rename':
        return tuple((op[2] if k == op[1] else k, v) for k, v in state), None
    if op[0] == 'hastype':
        return state, (op[1] in d and tmatch(d[op[1]], op[2]))
    if op[0] == 'unders':
        return tuple((k.replace('-', '_'), v) for k, v in state), None
    if op[0] == 'dashes':
        return tuple((k.replace('_', '-'), v) for k, v in state), None
    raise ValueError(op)


def apply_impl(n, op):
    try:
        if op[0] == 'has':
            return n.has_attribute(op[1])
        if op[0] == 'get':
            return view(n.get_attribute(op[1]).yaml_node)
        if op[0] == 'remove':
            return n.remove_attribute(op[1])
        if op[0] == 'set':
            return n.set_attribute(op[1], to_node(NODEVAL) if op[2] == 'NODE' else VALS[op[2]][1])
        if op[0] == 'rename':
            return n.rename_attribute(op[1], op[2])
        if op[0] == 'hastype':
            return n.has_attribute_type(op[1], TYPES[op[2]])
        if op[0] == 'unders':
            return n.dashes_to_unders_in_keys()
        if op[0] == 'dashes':
            return n.unders_to_dashes_in_keys()
    except (yatiml.SeasoningError, KeyError):
        return 'ABSENT'


def fresh(init):
    if init == ('k2',):
        return yatiml.Node(yaml.MappingNode(P + 'map', []))
    if init and init[0] == 'text':
        # composed from text: the nodes carry marks, and an alias is the SAME node object as its anchor
        return yatiml.Node(yaml.compose(init[1]))
    return yatiml.Node(yaml.MappingNode(P + 'map', [(yaml.ScalarNode(P + 'str', k), to_node(v)) for k, v in init]))


def state_of(n):
    return tuple((k.value, view(v)) for k, v in n.yaml_node.value)


INITS = ([()] + [((k, v),) for k in 'ab' for v in [VALS['vi'][0], NODEVAL, ('m', P + 'map', ())]]
         + [(('a', VALS['vi'][0]), ('b', VALS['vs'][0])), (('b', VALS['vn'][0]), ('a', NODEVAL))]
         + [('k2',), (('a_b', VALS['vi'][0]),), (('a-b', NODEVAL), ('c', VALS['vs'][0])), (('c', VALS['vi'][0]), ('a_b', VALS['vs'][0]))]
         + [('text', 'a: !!str {x: 1}\nb: !!int [1]\n'), ('text', 'a: !!null []\nb: !!map x\n'),
            ('text', 'a: &x 1\nb: *x\n'), ('text', 'b: &y [1]\na: *y\n'), ('text', 'a: s\nb: 1.5\n')])


def run_bfs(init, depth, res):
    """BFS from one initial state; histories are replayed on a fresh Node for every transition"""
    s0 = state_of(fresh(init)) if init and init[0] == 'text' else (() if init == ('k2',) else init)
    seen = {s0: ()}
    frontier = collections.deque([s0])
    while frontier:
        s = frontier.popleft()
        hist = seen[s]
        res.states += 1
        if len(hist) >= depth:
            continue
        for op in ops(s, KEYS2 if (init and init[0] != 'text' and any(k in KEYS2[:2] for k, _ in init)) or init == ('k2',) else None):
            res.transitions += 1
            n = fresh(init)
            for h in hist:
                apply_impl(n, h)
            if state_of(n) != s:
                # the history no longer reaches the model state: an earlier transition on this path already
                # disagreed with the model (and was reported); without such a report this is a harness fault
                if res.violations:
                    res.hist['successor-of-a-violating-state-skipped'] += 1
                    break
                raise core.HarnessError('replay of %r from %r diverged' % (hist, init))
            try:
                ir = apply_impl(n, op)
                is_ = state_of(n)
                exc = None
            except Exception as e:     # noqa
                exc, ir, is_ = e, None, None
            ms, mr = model(s, op)
            res.traces += 1
            if ms != s or mr == 'ABSENT':
                res.nontrivial += 1
            if exc is not None or ms != is_ or mr != ir:
                res.violation('C14:accessor:%s:%s' % (op[0], 'raises-' + type(exc).__name__ if exc is not None else
                                                      ('state' if ms != is_ else 'result')),
                              'after %s on %s: %s -> impl %s / %s, ordered-dict model %s / %s' % (
                                  list(hist), short(init), op, exc if exc is not None else short(is_), ir, short(ms), mr),
                              {'kind': 'sequence', 'init': init, 'history': list(hist) + [op]})
            if ms not in seen:
                seen[ms] = hist + (op,)
                frontier.append(ms)
    if len(seen) > 1 and len(res.samples) < 2:
        last = max(seen.values(), key=len)
        res.sample({'init': short(init), 'history': [list(o) for o in last]})


def short(state):
    if state == ('k2',):
        return '{} (keys a_b, a-b, c)'
    if state and state[0] == 'text':
        return state[1]
    return [(k, v[1].split(':')[-1] + ':' + str(v[2])[:12]) for k, v in state]


# ---------------------------------------------------------------- (b) scalar laws

INT_FORMS = ['017', '0x1F', '0b11', '1_000', '1:30', '+5', '-0', '0o17', '0', '00', '-1_0', '190:20:30', '0x_1', '1__0',
             '.inf', '-.inf', '+.inf', '.nan', '.NaN', '1e3', '1E+3', '.5', '5.', '-.5e-1', '1e22', '~', 'null', 'Null', '',
             'yes', 'no', 'on', 'off', 'true', 'True', 'FALSE', '2001-01-01', '!!bool yes', '!!bool off', '!!int "0x10"',
             '!!float "1"', '!!str 1', '!!null ""', '"1"', "'true'"]


def scalar_case(text, res, inst, load):
    try:
        ld = type(inst)(text)
        try:
            node = yaml.composer.Composer.get_single_node(ld)
        finally:
            ld.dispose()
    except yaml.YAMLError:
        return
    if not isinstance(node, yaml.ScalarNode):
        return
    if node.tag not in (P + 'str', P + 'int', P + 'float', P + 'bool', P + 'null'):
        return
    try:
        want = load(text)
    except Exception:     # noqa
        res.hist['scalar-does-not-load'] += 1
        return
    res.traces += 1
    res.transitions += 1
    if node.tag != P + 'str':
        res.nontrivial += 1
    try:
        got = yatiml.Node(node).get_value()
        exc = None
    except Exception as e:     # noqa
        got, exc = None, e
    ok = exc is None and type(got) is type(want) and (got == want or (got != got and want != want))
    if not ok:
        res.violation('C14:get_value:%s:%s' % (node.tag.split(':')[-1], 'raises-' + type(exc).__name__ if exc is not None else 'differs'),
                      'get_value() on the parsed scalar %r (%s) gives %s, load constructs %r' % (
                          text, node.tag, exc if exc is not None else repr(got), want),
                      {'kind': 'scalar', 'text': text})
    res.hist['get_value:' + node.tag.split(':')[-1]] += 1


HUGE = 16 ** 4400 - 1      # more decimal digits than str(int) accepts; such ints load from hexadecimal text
SETVALS = ['', 's', '1', 'true', 'a b', 0, 1, -7, 10 ** 20, 0.0, 1.5, -2.5, 1e22, 1e-7, float('inf'), float('-inf'),
           float('nan'), True, False, None, HUGE, -HUGE, 10 ** 4299, 10 ** 4300, -(10 ** 4300), 2 ** 70]


def rp(v):
    try:
        return repr(v)
    except ValueError:
        return '<int of %d bits>' % v.bit_length()
INIT_NODES = [('s', P + 'str', 'x'), ('s', P + 'int', '1'), ('s', P + 'float', '1.5'), ('s', P + 'bool', 'true'),
              ('s', P + 'null', ''), ('s', P + 'timestamp', '2001-01-01'), ('q', P + 'seq', ()), ('m', P + 'map', ()),
              ('q', P + 'seq', (('s', P + 'int', '1'),)), ('m', P + 'map', ((('s', P + 'str', 'k'), ('s', P + 'int', '1')),))]


def set_value_cases(res):
    for init in INIT_NODES:
        n0 = yatiml.Node(to_node(init))
        flags = (n0.is_scalar(), n0.is_sequence(), n0.is_mapping())
        res.traces += 1
        if sum(flags) != 1 or flags != (init[0] == 's', init[0] == 'q', init[0] == 'm'):
            res.violation('C14:classify', 'is_scalar/is_sequence/is_mapping on %s give %s' % (init, flags),
                          {'kind': 'classify', 'node': init})
        for i, v in enumerate(SETVALS):
            res.states += 1
            res.transitions += 1
            res.traces += 1
            res.nontrivial += 1
            n = yatiml.Node(to_node(init))
            try:
                n.set_value(v)
                got = n.get_value()
                isk = n.is_scalar(type(v))
                exc = None
            except Exception as e:     # noqa
                exc, got, isk = e, None, None
            ok = exc is None and type(got) is type(v) and (got == v or (got != got and v != v)) and isk is True
            if ok and isinstance(v, float) and v == 0.0:
                ok = math.copysign(1, got) == math.copysign(1, v)
            if not ok:
                res.violation('C14:set_value:%s' % type(v).__name__,
                              'set_value(%s) on %s then get_value() -> %s, is_scalar(%s) -> %s' % (
                                  rp(v), init[:2], exc if exc is not None else rp(got), type(v).__name__, isk),
                              {'kind': 'set_value', 'node': init, 'value_index': i})
            if init[0] != 'm':
                continue
            # the same law through set_attribute(): new key and existing key
            for key in ('k', 'new'):
                res.transitions += 1
                res.traces += 1
                n = yatiml.Node(to_node(init))
                try:
                    n.set_attribute(key, v)
                    got = n.get_attribute(key).get_value()
                    isk = n.has_attribute_type(key, type(v))
                    exc = None
                except Exception as e:     # noqa
                    exc, got, isk = e, None, None
                ok = exc is None and type(got) is type(v) and (got == v or (got != got and v != v)) and isk is True
                if ok and isinstance(v, float) and v == 0.0:
                    ok = math.copysign(1, got) == math.copysign(1, v)
                if not ok:
                    res.violation('C14:set_attribute:%s' % type(v).__name__,
                                  'set_attribute(%r, %s) on %s then get_attribute().get_value() -> %s, has_attribute_type(%s) -> %s' % (
                                      key, rp(v), init[:2], exc if exc is not None else rp(got), type(v).__name__, isk),
                                  {'kind': 'set_attribute', 'node': init, 'value_index': i, 'key': key})
    res.hist['set_value-cases'] += len(INIT_NODES) * len(SETVALS)


# ---------------------------------------------------------------- (c) defaults

DEFAULTS = [None, 0, 1, 5, 2.5, 1.0, '', 'abc', '5', True, False, float('nan'), float('inf'), [], {}]
VALUE_NODES = [('s', P + 'null', 'null'), ('s', P + 'int', '0'), ('s', P + 'int', '1'), ('s', P + 'int', '5'),
               ('s', P + 'int', '2'), ('s', P + 'float', '2.5'), ('s', P + 'float', '1.0'), ('s', P + 'str', ''),
               ('s', P + 'str', 'abc'), ('s', P + 'str', '5'), ('s', P + 'bool', 'true'), ('s', P + 'bool', 'false'),
               ('s', P + 'float', '.nan'), ('s', P + 'float', '.inf'), ('s', P + 'int', '0x5'),
               ('s', P + 'timestamp', '2001-01-01'), ('q', P + 'seq', ()), ('m', P + 'map', ()),
               ('q', P + 'seq', (('s', P + 'int', '1'),)), ('m', P + 'map', ((('s', P + 'str', 'k'), ('s', P + 'int', '1')),)),
               ('s', P + 'float', '5.0'), ('s', P + 'str', 'None'),
               # collections carrying a core scalar tag (explicit tags in the document): never equal to a scalar default
               ('q', P + 'null', (('s', P + 'int', '1'), ('s', P + 'int', '2'))), ('q', P + 'int', (('s', P + 'int', '5'),)),
               ('m', P + 'float', ((('s', P + 'str', 'k'), ('s', P + 'int', '1')),)), ('q', P + 'bool', (('s', P + 'bool', 'true'),)),
               ('q', P + 'str', (('s', P + 'str', 'abc'),)), ('m', P + 'null', ((('s', P + 'str', 'k'), ('s', P + 'int', '1')),))]


def kind_of(x):
    if x is None:
        return 'null'
    if isinstance(x, bool):
        return 'bool'
    if isinstance(x, int):
        return 'int'
    if isinstance(x, float):
        return 'float'
    if isinstance(x, str):
        return 'str'
    return type(x).__name__


def node_value(v):
    if v[0] != 's':
        return [] if v[0] == 'q' and not v[2] else ({} if v[0] == 'm' and not v[2] else object())
    from mc import refsem
    return refsem.parse_scalar(v[1], v[2])


def defaults_cases(res):
    for di, d in enumerate(DEFAULTS):
        for override in (False, True, 'over-5', 'extra-first', 'inherited-init'):
            if override == 'inherited-init':
                # a subclass that inherits __init__ and only changes the default table; the base is looked at first
                class Kbase:
                    def __init__(self, req: int, x='not the default', y: int = 3) -> None:
                        pass
                    _yatiml_defaults = {'x': 'base default'}
                yatiml.Node(to_node(('m', P + 'map', ((('s', P + 'str', 'x'), ('s', P + 'str', 'base default')),)))
                            ).remove_attributes_with_default_values(Kbase)

                class K(Kbase):
                    _yatiml_defaults = {'x': d}
            elif override == 'extra-first':
                # a defaulted _yatiml_extra declared before the defaulted parameters must not shift their defaults
                class K:
                    def __init__(self, req: int, _yatiml_extra: collections.OrderedDict = None, w: int = 77, x=d, y: int = 3) -> None:
                        pass
            elif override == 'over-5':
                # the signature says 5, _yatiml_defaults says d (also when d is None): d is the default
                class K:
                    def __init__(self, req: int, x=5, y: int = 3) -> None:
                        pass
                    _yatiml_defaults = {'x': d}
            elif override:
                class K:
                    def __init__(self, req: int, x=None, y: int = 3) -> None:
                        pass
                    _yatiml_defaults = {'x': d}
            else:
                class K:
                    def __init__(self, req: int, x=d, y: int = 3) -> None:
                        pass
            for vi, v in enumerate(VALUE_NODES):
                res.states += 1
                res.transitions += 1
                res.traces += 1
                before = ('m', P + 'map', ((('s', P + 'str', 'req'), ('s', P + 'int', '3')), (('s', P + 'str', 'x'), v),
                                           (('s', P + 'str', 'y'), ('s', P + 'int', '4')), (('s', P + 'str', 'zz'), ('s', P + 'int', '3'))))
                n = yatiml.Node(to_node(before))
                payload = {'kind': 'defaults', 'default_index': di, 'value_index': vi, 'override': override}
                try:
                    n.remove_attributes_with_default_values(K)
                except Exception as e:     # noqa
                    res.violation('C14:defaults:raises-%s:%s-vs-%s' % (type(e).__name__, kind_of(d), v[1].split(':')[-1]),
                                  'remove_attributes_with_default_values raised %s: %s for default %r and value %s' % (
                                      type(e).__name__, e, d, v[1:]), payload)
                    continue
                after = view(n.yaml_node)
                rest_b = tuple(p for p in before[2] if p[0][2] != 'x')
                rest_a = tuple(p for p in after[2] if p[0][2] != 'x')
                removed = not any(p[0][2] == 'x' for p in after[2])
                if rest_a != rest_b or (not removed and after != before):
                    res.violation('C14:defaults:touches-other', 'other attributes changed: %s' % (after,), payload)
                    continue
                val = node_value(v)
                if v[0] == 's' and kind_of(d) in ('null', 'bool', 'int', 'float', 'str') and v[1] != P + 'timestamp':
                    same_kind = kind_of(val) == kind_of(d)
                    if same_kind:
                        res.nontrivial += 1
                    if isinstance(d, float) and d != d:
                        expect = None                    # nan default: either way
                    elif same_kind:
                        expect = (val == d)
                    elif kind_of(val) in ('int', 'float', 'bool') and kind_of(d) in ('int', 'float', 'bool') and val == d:
                        expect = None                    # cross-kind numeric equality: either way
                    else:
                        expect = False
                elif v[0] != 's' and kind_of(d) in ('list', 'dict') and not v[2]:
                    # an empty collection equals an empty default of the same kind ([] is not {})
                    expect = (d == [] and v[0] == 'q') or (d == {} and v[0] == 'm')
                else:
                    expect = False
                res.hist['defaults:' + ('removed' if removed else 'kept')] += 1
                if expect is not None and removed != expect:
                    res.violation('C14:defaults:%s:%s-vs-%s' % ('removed' if removed else 'kept', kind_of(d), v[1].split(':')[-1]),
                                  'default %r (%s), value node %s: attribute was %s' % (
                                      d, 'via _yatiml_defaults' if override else 'from the signature', v[1:],
                                      'removed' if removed else 'kept'), payload)


# ---------------------------------------------------------------- histories over classes that share one __init__

HIST_TABLES = [(), ('x',), ('y',), ('x', 'y')]        # which parameters a class's own _yatiml_defaults overrides
HIST_CLASSES = ('B', 'D1', 'D2')                      # D1(B), D2(D1); __init__ is B's in all three


def hist_family(tabs):
    """fresh classes for one family: tabs[i] = overridden parameters of class i, or None = the class has no table of
    its own (it inherits the attribute of its base, as Python says)"""
    class B:
        def __init__(self, req: int, x: str = 'sx', y: str = 'sy') -> None:
            pass
    D1 = type('D1', (B,), {})
    D2 = type('D2', (D1,), {})
    classes = {'B': B, 'D1': D1, 'D2': D2}
    for name, tab in zip(HIST_CLASSES, tabs):
        if tab is not None:
            classes[name]._yatiml_defaults = {p: 't%s_%s' % (p, name) for p in tab}
    return classes


def hist_default(classes, name, p):
    c = classes[name]
    return getattr(c, '_yatiml_defaults', {}).get(p, 's' + p)


def defaults_history_cases(tabs, depth, res):
    """every sequence of <= depth remove_attributes_with_default_values() calls over the three classes of the family
    (fresh classes per sequence, so a memo keyed by the shared __init__ or by a class starts empty); the last call is
    made on every (x, y) value pair over the signature defaults and all override values, and must remove exactly the
    attributes equal to the defaults of the class that was passed - whatever classes were looked at before"""
    xs = ['sx'] + ['tx_' + c for c in HIST_CLASSES]
    ys = ['sy'] + ['ty_' + c for c in HIST_CLASSES]
    for n in range(1, depth + 1):
        for seq in itertools.product(HIST_CLASSES, repeat=n):
            res.states += 1
            for vx in xs:
                for vy in ys:
                    classes = hist_family(tabs)
                    doc = ('m', P + 'map', ((('s', P + 'str', 'req'), ('s', P + 'int', '3')), (('s', P + 'str', 'x'), ('s', P + 'str', vx)),
                                           (('s', P + 'str', 'y'), ('s', P + 'str', vy))))
                    payload = {'kind': 'defaults-history', 'tables': [list(t) if t is not None else None for t in tabs],
                               'sequence': list(seq), 'x': vx, 'y': vy}
                    res.transitions += 1
                    res.traces += 1
                    try:
                        for c in seq[:-1]:
                            yatiml.Node(to_node(doc)).remove_attributes_with_default_values(classes[c])
                        node = yatiml.Node(to_node(doc))
                        node.remove_attributes_with_default_values(classes[seq[-1]])
                    except Exception as e:     # noqa
                        res.violation('C14:defaults-history:raises-' + type(e).__name__, 'sequence %s raised %s: %s' % (seq, type(e).__name__, e), payload)
                        continue
                    left = [k[2] for k, v in view(node.yaml_node)[2]]
                    want = ['req'] + [p for p, v in (('x', vx), ('y', vy)) if v != hist_default(classes, seq[-1], p)]
                    res.hist['defaults-history:' + ('removed' if len(left) < 3 else 'kept')] += 1
                    if len(left) < 3 and n > 1:
                        res.nontrivial += 1
                    if left != want:
                        res.violation('C14:defaults-history:' + ('first-call' if n == 1 else 'depends-on-earlier-calls'),
                                      'classes B, D1(B), D2(D1) share __init__(req, x=\'sx\', y=\'sy\'), own _yatiml_defaults override %s; '
                                      'after looking at %s, remove_attributes_with_default_values(%s) on {x: %s, y: %s} leaves %s, '
                                      'the defaults of %s are x=%s y=%s so %s should be left' % (
                                          dict(zip(HIST_CLASSES, tabs)), list(seq[:-1]), seq[-1], vx, vy, left, seq[-1],
                                          hist_default(classes, seq[-1], 'x'), hist_default(classes, seq[-1], 'y'), want), payload)


def hist_families():
    return [tabs for tabs in itertools.product(HIST_TABLES, [None] + HIST_TABLES, [None] + HIST_TABLES)]


# ---------------------------------------------------------------- driver

def units(tier):
    b = BOUNDS(tier)
    out = [('bfs', i) for i in range(len(INITS))]
    out += [('setvalue',), ('defaults',), ('intforms',)]
    out += [('defaults-history', i) for i in range(0, len(hist_families()), 10)]
    L = b['scalar_spelling_maxlen']
    for name, alpha in (('num', C09.NUM_ALPHA), ('word', C09.WORD_ALPHA)):
        for a in alpha:
            out.append(('spell', name, a, L if name == 'num' else max(2, L - 1)))
    return out


_LD = None


def run_unit(unit, tier):
    global _LD
    res = core.Result()
    if unit[0] == 'bfs':
        run_bfs(INITS[unit[1]], BOUNDS(tier)['sequence_depth'], res)
        return res
    if unit[0] == 'setvalue':
        set_value_cases(res)
        return res
    if unit[0] == 'defaults':
        defaults_cases(res)
        return res
    if unit[0] == 'defaults-history':
        for tabs in hist_families()[unit[1]:unit[1] + 10]:
            defaults_history_cases(tabs, BOUNDS(tier)['defaults_history_depth'], res)
        return res
    if _LD is None:
        load = yatiml.load_function()
        _LD = (load.loader(''), load)
    inst, load = _LD
    if unit[0] == 'intforms':
        for t in INT_FORMS:
            res.states += 1
            scalar_case(t, res, inst, load)
        return res
    _, name, first, L = unit
    alpha = C09.ALPHAS[name]
    for n in range(0, L):
        for t in itertools.product(alpha, repeat=n):
            res.states += 1
            scalar_case(first + ''.join(t), res, inst, load)
    return res


def finish(total, tier):
    if total.hist['get_value:int'] < 20 or total.hist['get_value:float'] < 20 or total.hist['get_value:bool'] < 3:
        raise core.Vacuous('scalar spellings: %r' % {k: v for k, v in total.hist.items() if k.startswith('get_value')})
    if total.hist['defaults:removed'] < 10 or total.hist['defaults:kept'] < 100:
        raise core.Vacuous('defaults: removed=%d kept=%d' % (total.hist['defaults:removed'], total.hist['defaults:kept']))


def _tup(x):
    return tuple(_tup(i) for i in x) if isinstance(x, list) else x


def replay(payload):
    res = core.Result()
    k = payload['kind']
    if k == 'sequence':
        init = _tup(payload['init'])
        hist = [_tup(o) for o in payload['history']]
        n = fresh(init)
        s = state_of(n) if init and init[0] == 'text' else init
        for op in hist:
            ir = apply_impl(n, op)
            s, mr = model(s, op)
            if state_of(n) != s or ir != mr:
                return True, 'after %s: impl %s / %r, model %s / %r' % (op, short(state_of(n)), ir, short(s), mr)
        return False, 'sequence agrees with the ordered-dict model'
    if k == 'scalar':
        load = yatiml.load_function()
        scalar_case(payload['text'], res, load.loader(''), load)
    elif k in ('set_value', 'set_attribute', 'classify'):
        set_value_cases(res)
        res.violations = [v for v in res.violations if v['replay'] == payload or k == 'classify']
    elif k == 'defaults-history':
        tabs = tuple(tuple(t) if t is not None else None for t in payload['tables'])
        defaults_history_cases(tabs, len(payload['sequence']), res)
        res.violations = [v for v in res.violations if v['replay'] == payload]
    else:
        defaults_cases(res)
        res.violations = [v for v in res.violations if all(v['replay'].get(f) == payload.get(f) for f in ('default_index', 'value_index', 'override'))]
    if res.violations:
        return True, res.violations[0]['what']
    return False, 'law holds on this case'
