"""C18 - anchors and aliases are transparent.

For every (model, document) pair (valid and invalid documents of D(T)): every pair of structurally
equal sub-trees at disjoint positions is shared (one node object in both places, serialised by
PyYAML as &id001 / *id001), plus the maximal sharing (every class of equal sub-trees shared at
once); the text is composed back and the sharing verified by node identity.  The outcome must
equal that of the expanded document (equal value, or failure in both).  Cycles: every collection
node placed at each of its own descendant positions must be rejected with RecognitionError or a
YAML error - not RecursionError, and not a value.
"""
import itertools

import yaml
import yatiml

from mc import catalog, core, docs, loadcase, models
from mc.docs import M, Q, S
from mc.loadcase import eqv, show
from mc.models import LOG, T, to_node, view

PROPERTY = 'C18'
RULE = ('choice tree: model x document of D(T) x sharing (every pair of equal sub-trees at disjoint positions; all equal '
        'sub-trees at once) and x cycle (every collection node at every descendant position); each leaf is serialised '
        'with anchors, composed back (node identity of the shared positions is verified), loaded with the real load '
        'function and compared with the outcome of the expanded document; non-trivial = aliased documents whose '
        'expanded form loads, and every cycle')
ASSUMPTIONS = [
    'two sub-trees are "equal" when kind, tag and value agree recursively; the aliased text is produced by PyYAML\'s '
    'serializer from a node graph in which both positions hold the same node object',
    'every aliased and every cyclic document is also read as a one-document stream (yaml.load_all with the function\'s loader '
    'class, i.e. through Loader.get_node): same requirement',
    'any failure equals any failure (the exception type is C08\'s business), except that a cycle must not end in '
    'RecursionError/MemoryError and must not yield a value',
]


def BOUNDS(tier):
    return {'models': len(units(tier)), 'collection_width': 2, 'tiny_nodes': 3,
            'mutated_valid_docs_per_model': 3 if tier == 'quick' else 12,
            'sharing': 'every pair + maximal sharing' + ('' if tier == 'quick' else ' + every triple'),
            'cycles': 'every collection node at every descendant position (values, items, keys)' + (
                ' of the valid, duplicate-key, complex-key and merge-key documents' if tier == 'quick' else ' of every document')}


def special_models():
    """one node at two differently typed positions; seasoned classes; hierarchies"""
    out = []
    B = catalog.BASE
    Sx = lambda v: ('s', 'str', v)     # noqa
    Ix = lambda v: ('s', 'int', v)     # noqa
    Mx = lambda ps: ('m', 'map', ps)   # noqa
    out.append(('two-types', {'classes': B + [{'name': 'K', 'params': [('i', ('cls', 'In')), ('d', ('dict', 'str', 'int'))],
                                              'docs': [Mx([(Sx('i'), Mx([(Sx('p'), Ix('1'))])), (Sx('d'), Mx([(Sx('p'), Ix('1'))]))])]}],
                              'root': ('cls', 'K')}))
    out.append(('two-types', {'classes': B + [{'name': 'K', 'params': [('e', ('cls', 'E')), ('s', 'str'), ('w', ('cls', 'S'), None)],
                                              'docs': [Mx([(Sx('e'), Sx('red')), (Sx('s'), Sx('red')), (Sx('w'), Sx('red'))]),
                                                       Mx([(Sx('e'), Sx('true')), (Sx('s'), Sx('true'))]),
                                                       Mx([(Sx('e'), ('s', 'bool', 'true')), (Sx('s'), ('s', 'bool', 'true'))])]}],
                              'root': ('cls', 'K')}))
    out.append(('two-types', {'classes': B + [{'name': 'K', 'params': [('i', ('cls', 'In')), ('a', 'any'), ('u', 'untyped', None)],
                                              'extra': True,
                                              'docs': [Mx([(Sx('i'), Mx([(Sx('p'), Ix('1'))])), (Sx('a'), Mx([(Sx('p'), Ix('1'))])),
                                                           (Sx('zz'), Mx([(Sx('p'), Ix('1'))]))]),
                                                       Mx([(Sx('i'), ('m', '!In', [(Sx('p'), Ix('1'))])), (Sx('a'), ('m', '!In', [(Sx('p'), Ix('1'))]))])]}],
                              'root': ('cls', 'K')}))
    out.append(('two-types', {'classes': B + [{'name': 'K', 'params': [('p', 'path'), ('s', 'str'), ('l', ('list', 'path'), None)],
                                              'docs': [Mx([(Sx('p'), Sx('a/b')), (Sx('s'), Sx('a/b')), (Sx('l'), ('q', 'seq', [Sx('a/b'), Sx('a/b')]))])]}],
                              'root': ('cls', 'K')}))
    out.append(('two-types', {'classes': B + [{'name': 'K', 'params': [('f', 'float'), ('u', ('union', ['int', 'float'])), ('d', 'date', None),
                                                                       ('o', ('opt', 'date'), None)],
                                              'docs': [Mx([(Sx('f'), ('s', 'float', '1.5')), (Sx('u'), ('s', 'float', '1.5'))]),
                                                       Mx([(Sx('f'), ('s', 'float', '1.5')), (Sx('u'), Ix('1')),
                                                           (Sx('d'), ('s', 'timestamp', '2001-01-01')), (Sx('o'), ('s', 'timestamp', '2001-01-01'))])]}],
                              'root': ('cls', 'K')}))
    # tagged scalars below untyped positions (the tag is ignored, whether the scalar is quoted then decides its type:
    # the emitter writes a tagged scalar quoted), and own-class tags on scalars of string-like classes and enums
    tg = lambda t, v: ('s', t, v)      # noqa
    out.append(('tagged-scalars', {'classes': B + [{'name': 'K', 'params': [('a', 'any'), ('b', 'any', None), ('u', 'untyped', None)], 'extra': True,
                                                    'docs': [Mx([(Sx('a'), tg('!Other', '12')), (Sx('b'), tg('!Other', '12')), (Sx('u'), tg('!Other', '12')),
                                                                 (Sx('zz'), tg('!Other', '12'))]),
                                                             Mx([(Sx('a'), tg('!x', 'true')), (Sx('b'), ('q', 'seq', [tg('!x', 'true'), tg('!x', '')]))])]}],
                                   'root': ('cls', 'K')}))
    out.append(('tagged-scalars', {'classes': B, 'root': ('list', 'any'),
                                   }))
    out.append(('tagged-scalars', {'classes': B + [{'name': 'K', 'params': [('s', ('cls', 'S')), ('e', ('cls', 'E')), ('l', ('list', ('cls', 'S')), None)],
                                                    'docs': [Mx([(Sx('s'), tg('!S', '007')), (Sx('e'), tg('!E', 'red')),
                                                                 (Sx('l'), ('q', 'seq', [tg('!S', '007'), tg('!S', 'true')]))])]}],
                                   'root': ('cls', 'K')}))
    # nested sharing at differently typed places: base: &x {name: foo} / first: &y {inner: *x} / second: *y
    na = {'name': 'Na', 'params': [('name', 'str')]}
    nb = {'name': 'Nb', 'params': [('name', 'path')]}
    ne = {'name': 'Ne', 'params': [('name', ('cls', 'E'))]}
    for other in ('Nb', 'Ne'):
        word = 'red' if other == 'Ne' else 'foo'
        inner = Mx([(Sx('name'), Sx(word))])
        out.append(('nested-sharing', {'classes': B + [na, nb, ne, {'name': 'F', 'params': [('inner', ('cls', 'Na'))]},
                                                       {'name': 'G', 'params': [('inner', ('cls', other))]},
                                                       {'name': 'K', 'params': [('base', ('cls', 'Na')), ('first', ('cls', 'F')),
                                                                                ('second', ('cls', 'G'))],
                                                        'docs': [Mx([(Sx('base'), inner), (Sx('first'), Mx([(Sx('inner'), inner)])),
                                                                     (Sx('second'), Mx([(Sx('inner'), inner)]))])]}],
                                       'root': ('cls', 'K')}))
    # sharing INSIDE a shared collection, the inner places differently typed: dev: &dev [&data a/b, {path: *data}] / prod: *dev
    vol = {'name': 'Vol', 'params': [('path', 'path')]}
    pair = ('q', 'seq', [Sx('a/b'), Mx([(Sx('path'), Sx('a/b'))])])
    out.append(('inner-sharing', {'classes': B + [vol, {'name': 'K', 'params': [('m', ('dict', 'str', ('list', ('union', ['str', ('cls', 'Vol')]))))],
                                                        'docs': [Mx([(Sx('m'), Mx([(Sx('dev'), pair), (Sx('prod'), pair)]))])]}],
                                  'root': ('cls', 'K')}))
    es = {'name': 'Es', 'params': [('e', ('cls', 'E')), ('s', 'str'), ('w', ('cls', 'S'), None)]}
    both = Mx([(Sx('e'), Sx('red')), (Sx('s'), Sx('red')), (Sx('w'), Sx('red'))])
    out.append(('inner-sharing', {'classes': B + [es, {'name': 'K', 'params': [('m', ('dict', 'str', ('cls', 'Es'))), ('l', ('list', ('cls', 'Es')), None)],
                                                       'docs': [Mx([(Sx('m'), Mx([(Sx('x'), both), (Sx('y'), both)]))]),
                                                                Mx([(Sx('m'), Mx([(Sx('x'), both)])), (Sx('l'), ('q', 'seq', [both, both]))])]}],
                                  'root': ('cls', 'K')}))
    anyin = Mx([(Sx('i'), Mx([(Sx('p'), Ix('1'))])), (Sx('a'), Mx([(Sx('p'), Ix('1'))]))])
    out.append(('inner-sharing', {'classes': B + [{'name': 'Ia', 'params': [('i', ('cls', 'In')), ('a', 'any')]},
                                                  {'name': 'K', 'params': [('l', ('list', ('cls', 'Ia')))],
                                                   'docs': [Mx([(Sx('l'), ('q', 'seq', [anyin, anyin]))])]}],
                                  'root': ('cls', 'K')}))
    # seasoned classes whose savorize is not idempotent, inside collections
    out.append(('seasoned', {'classes': B + [{'name': 'K', 'params': [('v', 'int'), ('w', 'str', 'dw')],
                                             'hooks': {'savorize': [('scalar_to_attr', 'v')]},
                                             'docs': [Ix('5')]}],
                             'root': ('dict', 'str', ('cls', 'K'))}))
    out.append(('seasoned', {'classes': B + [{'name': 'K', 'params': [('new', 'int'), ('old', 'int', 0)],
                                             'hooks': {'savorize': [('rename', 'old', 'new')]},
                                             'docs': [Mx([(Sx('old'), Ix('1'))])]}],
                             'root': ('list', ('cls', 'K'))}))
    item = {'name': 'It', 'params': [('id', 'str'), ('v', 'int'), ('w', 'str', 'dw')]}
    out.append(('seasoned', {'classes': B + [item, {'name': 'K', 'params': [('items', ('list', ('cls', 'It')))],
                                                   'hooks': {'savorize': [('map_to_seq', 'items', 'id', 'v')]},
                                                   'docs': [Mx([(Sx('items'), Mx([(Sx('i1'), Ix('1')), (Sx('i2'), Ix('1'))]))]),
                                                            Mx([(Sx('items'), Mx([(Sx('i1'), Mx([(Sx('v'), Ix('2'))])),
                                                                                   (Sx('i2'), Mx([(Sx('v'), Ix('2'))]))]))])]}],
                             'root': ('list', ('cls', 'K'))}))
    out.append(('seasoned', {'classes': B + [{'name': 'K', 'params': [('a_b', 'int'), ('c', ('dict', 'str', 'int'), None)],
                                             'hooks': {'savorize': [('dashes_to_unders',)]},
                                             'docs': [Mx([(Sx('a-b'), Ix('1')), (Sx('c'), Mx([(Sx('a-b'), Ix('1'))]))])]}],
                             'root': ('list', ('cls', 'K'))}))
    # hierarchies: the same node under the base type and under a derived type
    spec = catalog.hierarchy('fork2', ['req', 'req'])
    spec['classes'].append({'name': 'H', 'params': [('c', ('cls', 'C0')), ('d', ('cls', 'C1')), ('l', ('list', ('cls', 'C0')), None)]})
    spec['root'] = ('cls', 'H')
    out.append(('hier', spec))
    for shape, adds in (('chain2', ['req']), ('chain3', ['req', 'opt']), ('fork2', ['req', 'opt'])):
        sp = catalog.hierarchy(shape, adds)
        sp['root'] = ('list', ('cls', 'C0'))
        out.append(('hier', sp))
        sp2 = catalog.hierarchy(shape, adds)
        sp2['classes'][0]['hooks'] = {'savorize': [('rename', 'xx', 'x')]}
        sp2['classes'][1]['hooks'] = {'savorize': [('rename', 'ff', 'f1')]}
        sp2['root'] = ('dict', 'str', ('cls', 'C0'))
        out.append(('hier-seasoned', sp2))
    en = {'name': 'En', 'kind': 'enum', 'members': ['true', 'False', 'red']}
    for t in (('list', ('union', ['bool', ('cls', 'En')])), ('list', ('union', ['str', 'int'])), ('dict', ('cls', 'S'), ('cls', 'S')),
              ('list', ('dict', 'str', ('list', 'int'))), ('list', 'any'), ('dict', 'str', 'any'), 'any'):
        out.append(('misc', {'classes': B + [en], 'root': t}))
    return out


_CAT = {}


def cat(tier):
    if tier not in _CAT:
        c = catalog.all_load_models(tier)
        if tier == 'quick':
            c = c[::3]
        _CAT[tier] = special_models() + c
    return _CAT[tier]


def units(tier):
    return list(range(len(cat(tier)))) + ['shared-cycle'] + [('many-aliases', i) for i in range(len(MANY))]


# (root type, flow text of the anchored node, is it valid for the root's item type)
MANY = [('any', '[1, 2]'), ('any', '{p: 1}'), ('any', 'a'), (('list', ('list', 'int')), '[1, 2]'), (('list', ('cls', 'In')), '{p: 1}'),
        (('list', 'str'), 'a'), (('list', ('cls', 'E')), 'red'), (('list', ('dict', 'str', 'int')), '{k: 1}'),
        (('list', ('list', 'int')), '[1, x]'), (('list', ('cls', 'In')), '{p: no}')]


def many_aliases_unit(idx, res, tier):
    """the number of aliases as a dimension: one anchored node referred to n times, n anchors referred to once each, and
    a chain (item i+1 = [*item i]); as list items and as dict values.  The expansion is a few kB at most, so whatever
    the expansion does the aliased document must do"""
    root, anchored = MANY[idx]
    counts = (1, 2, 3, 9, 10, 11, 31, 32, 33, 63, 64, 65, 99, 100, 101, 127, 128, 129, 255, 256, 257, 500) + (
        () if tier == 'quick' else (999, 1000, 1001, 1023, 1024, 1025, 2000, 4095, 4096, 4097))
    for shape in ('seq', 'map'):
        r = root if shape == 'seq' or root == 'any' else ('dict', 'str', root[1])
        case = loadcase.Case({'classes': catalog.BASE, 'root': r})
        for n in counts:
            for pattern in ('one-anchor', 'n-anchors', 'tail-anchor'):
                if shape == 'seq':
                    if pattern == 'one-anchor':
                        al = '- &a %s\n' % anchored + '- *a\n' * n
                        ex = ('- %s\n' % anchored) * (n + 1)
                    elif pattern == 'n-anchors':
                        al = ''.join('- &a%d %s\n- *a%d\n' % (i, anchored, i) for i in range(n))
                        ex = ('- %s\n' % anchored) * (2 * n)
                    else:
                        al = ('- %s\n' % anchored) * n + '- &z %s\n- *z\n' % anchored
                        ex = ('- %s\n' % anchored) * (n + 2)
                else:
                    if pattern == 'one-anchor':
                        al = 'k: &a %s\n' % anchored + ''.join('k%d: *a\n' % i for i in range(n))
                        ex = 'k: %s\n' % anchored + ''.join('k%d: %s\n' % (i, anchored) for i in range(n))
                    elif pattern == 'n-anchors':
                        al = ''.join('k%d: &a%d %s\nj%d: *a%d\n' % (i, i, anchored, i, i) for i in range(n))
                        ex = ''.join('k%d: %s\nj%d: %s\n' % (i, anchored, i, anchored) for i in range(n))
                    else:
                        al = ''.join('k%d: %s\n' % (i, anchored) for i in range(n)) + 'y: &z %s\nz: *z\n' % anchored
                        ex = ''.join('k%d: %s\n' % (i, anchored) for i in range(n)) + 'y: %s\nz: %s\n' % (anchored, anchored)
                res.states += 1
                res.transitions += 1
                res.traces += 2
                o0 = case.impl(ex)
                o1 = case.impl(al)
                res.hist['many-aliases:' + o0[0]] += 1
                if o0[0] == 'ok':
                    res.nontrivial += 1
                if not same(o0, o1):
                    res.violation('C18:many-aliases:%s:%s' % (pattern, o0[0] + '->' + o1[0]),
                                  '%d aliases (%s, %s of %s, document type %s): expanded document %s, aliased document %s' % (
                                      n, pattern, shape, anchored, r, describe(o0), describe(o1)),
                                  loadcase.payload(case.spec, ex, kind='alias', aliased=al))


def shared_cycle_unit(res, tier):
    """self-referential documents whose levels are shared: level i = [level i+1, *level i+1], the last entry of the root is
    an alias to the root.  There is no expansion to wait for: the load must end in an error promptly."""
    import signal

    class Timeout(BaseException):
        pass

    def on_alarm(signum, frame):
        raise Timeout()
    case = loadcase.Case({'classes': catalog.BASE, 'root': 'any'})
    for depth in ((4, 10, 16, 22, 30) if tier == 'quick' else (4, 10, 16, 22, 30, 40, 60)):
        for kind in ('seq', 'map'):
            inner = yaml.SequenceNode(models.P + 'seq', [yaml.ScalarNode(models.P + 'str', 'x')])
            node = inner
            for i in range(depth):
                if kind == 'seq':
                    node = yaml.SequenceNode(models.P + 'seq', [node, node])
                else:
                    node = yaml.MappingNode(models.P + 'map', [(yaml.ScalarNode(models.P + 'str', 'a'), node),
                                                               (yaml.ScalarNode(models.P + 'str', 'b'), node)])
            # the cycle comes LAST in document order (the last entry of the root is the root itself), so a checker
            # that re-walks shared levels meets it only after 2^depth steps
            if kind == 'seq':
                node.value.append(node)
            else:
                node.value.append((yaml.ScalarNode(models.P + 'str', 'c'), node))
            text = case.R.serialize(node)
            res.states += 1
            res.transitions += 1
            res.traces += 1
            res.nontrivial += 1
            old = signal.signal(signal.SIGALRM, on_alarm)
            signal.alarm(20)
            try:
                o = case.impl(text)
                timed_out = False
            except Timeout:
                o, timed_out = None, True
            finally:
                signal.alarm(0)
                signal.signal(signal.SIGALRM, old)
            pl = loadcase.payload(case.spec, text, kind='shared-cycle', depth=depth)
            if timed_out:
                res.violation('C18:cycle:hang', 'self-referential document with %d shared levels (%d characters) was not rejected within 20 s' % (
                    depth, len(text)), pl)
            elif o[0] in ('rej', 'yamlerr'):
                res.hist['cycle:rejected'] += 1
                res.hist['shared-cycle:rejected'] += 1
            elif o[0] == 'ok':
                res.violation('C18:cycle:value', 'self-referential document (%d shared levels) was loaded' % depth, pl)
            elif isinstance(o[1], (RecursionError, MemoryError)):
                res.violation('C18:cycle:%s' % type(o[1]).__name__, 'self-referential document (%d shared levels): %s' % (depth, describe(o)), pl)
            else:
                res.hist['cycle:other-exception'] += 1


# ---------------------------------------------------------------- sharing

def disjoint(p, q):
    n = min(len(p), len(q))
    return p[:n] != q[:n]


def node_at(root, path):
    n = root
    for h in path:
        if isinstance(n, yaml.SequenceNode):
            n = n.value[h]
        else:
            n = n.value[h[0]][h[1]]
    return n


def set_at(root, path, new):
    parent = node_at(root, path[:-1])
    h = path[-1]
    if isinstance(parent, yaml.SequenceNode):
        parent.value[h] = new
    else:
        kv = list(parent.value[h[0]])
        kv[h[1]] = new
        parent.value[h[0]] = tuple(kv)


def equal_groups(tree):
    """classes of structurally equal sub-trees (>= 2 pairwise disjoint occurrences)"""
    by = {}
    for path, sub in docs.positions(tree):
        if path:
            by.setdefault(sub, []).append(path)
    return {k: v for k, v in by.items() if len(v) >= 2}


def sharings(tree, tier):
    """lists of groups; each group is a list of paths that will hold one node object"""
    groups = equal_groups(tree)
    out = []
    for sub, paths in groups.items():
        for a, b in itertools.combinations(paths, 2):
            if disjoint(a, b):
                out.append([[a, b]])
        if tier == 'thorough':
            for trip in itertools.combinations(paths, 3):
                if all(disjoint(a, b) for a, b in itertools.combinations(trip, 2)):
                    out.append([list(trip)])
    # maximal sharing: all occurrences of every class at once (outermost classes first, nested ones inside the
    # representative only - the serializer anchors them inside the first occurrence)
    allg = []
    for sub, paths in sorted(groups.items(), key=lambda kv: (min(len(p) for p in kv[1]), repr(kv[0]))):
        dis = []
        for p in paths:
            if all(disjoint(p, q) for q in dis):
                dis.append(p)
        if len(dis) >= 2:
            allg.append(dis)
    if len(allg) > 1 or (allg and len(allg[0]) > 2):
        out.append(allg)
    return out


def build_shared(tree, groups):
    """node graph in which the positions of each group hold the same node object (None if impossible)"""
    root = to_node(tree)
    done = []
    for g in groups:
        # paths lying inside a position that was already replaced by another group's representative are shared through
        # that representative anyway; share what is left of the group (this gives NESTED sharing: an anchored collection
        # that contains an alias and is aliased again itself)
        g = [p for p in g if not any(not disjoint(p, q) and len(q) < len(p) for q in done)]
        if len(g) < 2:
            continue
        rep = node_at(root, g[0])
        for p in g[1:]:
            if not p:
                return None
            set_at(root, p, rep)
            done.append(p)
    return root


def identical(root, groups):
    ok = 0
    for g in groups:
        try:
            nodes = [node_at(root, p) for p in g]
        except (IndexError, TypeError, AttributeError):
            return False
        if all(n is nodes[0] for n in nodes[1:]):
            ok += 1
    return ok > 0


def cycles(tree):
    """(collection path, descendant path) pairs"""
    for path, sub in docs.positions(tree):
        if sub[0] in ('q', 'm') and sub[2]:
            for dpath, dsub in docs.positions(sub):
                if dpath:
                    yield path, path + dpath


def describe(o):
    if o[0] == 'ok':
        return 'ok:' + show(o[1])[:160]
    if o[0] == 'exc':
        return 'exc:%s: %s' % (type(o[1]).__name__, str(o[1])[:120])
    if o[0] == 'yamlerr':
        return 'yamlerr:' + o[1]
    return 'rej:' + o[1].replace('\n', ' / ')[:160]


def same(o0, o1):
    if (o0[0] == 'ok') != (o1[0] == 'ok'):
        return False
    return o0[0] != 'ok' or eqv(o0[1], o1[1])


def where(spec, tree, groups):
    """a coarse, stable description of what was shared (for finding keys)"""
    sub = docs.get_at(tree, groups[0][0])
    kinds = {'s': 'scalar', 'q': 'sequence', 'm': 'mapping'}
    iskey = any(docs.is_key_path(p) for g in groups for p in g)
    return kinds[sub[0]] + ('@key' if iskey else '')


def run_unit(unit, tier):
    res = core.Result()
    if unit == 'shared-cycle':
        shared_cycle_unit(res, tier)
        return res
    if isinstance(unit, tuple) and unit[0] == 'many-aliases':
        many_aliases_unit(unit[1], res, tier)
        return res
    fam, spec = cat(tier)[unit]
    case = loadcase.Case(spec)
    names = [c.__name__ for c in case.b.registered if c.__name__ in ('K', 'In', 'C1')]
    tags = ['!' + n for n in names]
    ds = loadcase.document_set(spec, case, tier, tags=tags, n_mut=3 if tier == 'quick' else 12, tiny_n=3)
    res.states += 1
    for kind, site, tree in ds:
        text, back = case.R.checked(tree)
        if text is None:
            res.hist['render-mismatch'] += 1
            continue
        res.states += 1
        o0 = None
        for groups in sharings(tree, tier):
            root = build_shared(tree, groups)
            if root is None:
                continue
            try:
                atext = case.R.serialize(root)
                anode = case.R.compose(atext)
            except yaml.YAMLError:
                res.hist['alias-render-error'] += 1
                continue
            if view(anode) != back or not identical(anode, groups) or '*' not in atext:
                res.hist['alias-render-mismatch'] += 1
                continue
            if o0 is None:
                o0 = case.impl(text)
                res.traces += 1
            o1 = case.impl(atext)
            res.traces += 1
            res.transitions += 1
            if o0[0] == 'ok':
                res.nontrivial += 1
            o2 = case.impl_stream(atext)
            res.traces += 1
            if not same(o0, o2):
                res.violation('C18:alias-in-stream:%s:%s->%s' % (where(spec, tree, groups), 'ok' if o0[0] == 'ok' else 'fail',
                                                                 'ok' if o2[0] == 'ok' else 'fail'),
                              'expanded %r gives %s; aliased %r read as a one-document stream (load_all) gives %s' % (
                                  text, describe(o0), atext, describe(o2)),
                              loadcase.payload(spec, text, aliased=atext, kind='alias-stream'))
            if same(o0, o1):
                res.hist['alias:' + ('ok' if o0[0] == 'ok' else 'fail')] += 1
                if o0[0] == 'ok':
                    res.sample({'model': models.source_of(spec)[-3:], 'aliased': atext, 'expanded': text}, 2)
            else:
                key = 'C18:alias:%s:%s->%s' % (where(spec, tree, groups), 'ok' if o0[0] == 'ok' else 'fail',
                                               'ok' if o1[0] == 'ok' else 'fail')
                res.violation(key, 'expanded %r gives %s; aliased %r gives %s' % (text, describe(o0), atext, describe(o1)),
                              loadcase.payload(spec, text, aliased=atext, kind='alias'))
        if kind == 'tiny' and fam not in ('misc', 'two-types'):
            continue
        if tier == 'quick' and kind not in ('valid', 'tiny', 'dupkey', 'merge', 'complexkey'):
            continue        # quick: cycles through valid, duplicate-key, complex-key and merge-key documents only
        for cpath, dpath in cycles(tree):
            root = to_node(tree)
            set_at(root, dpath, node_at(root, cpath))
            try:
                ctext = case.R.serialize(root)
                cnode = case.R.compose(ctext)
            except yaml.YAMLError:
                res.hist['cycle-render-error'] += 1
                continue
            if node_at(cnode, dpath) is not node_at(cnode, cpath):
                res.hist['cycle-render-mismatch'] += 1
                continue
            o = case.impl(ctext)
            res.traces += 1
            res.transitions += 1
            res.nontrivial += 1
            os_ = case.impl_stream(ctext)
            if os_[0] == 'ok' or (os_[0] == 'exc' and isinstance(os_[1], (RecursionError, MemoryError))):
                res.violation('C18:cycle-in-stream:%s' % ('value' if os_[0] == 'ok' else type(os_[1]).__name__),
                              'self-referential document %r read as a one-document stream (load_all): %s' % (ctext, describe(os_)),
                              loadcase.payload(spec, ctext, kind='cycle-stream'))
            if o[0] in ('rej', 'yamlerr'):
                res.hist['cycle:rejected'] += 1
                if res.hist['cycle:rejected'] == 1:
                    res.sample({'model': models.source_of(spec)[-2:], 'cycle': ctext, 'outcome': describe(o)[:100]}, 3)
            elif o[0] == 'ok':
                res.violation('C18:cycle:value', 'self-referential document %r was loaded: %s' % (ctext, describe(o)),
                              loadcase.payload(spec, ctext, kind='cycle'))
            elif isinstance(o[1], (RecursionError, MemoryError)):
                res.violation('C18:cycle:%s' % type(o[1]).__name__,
                              'self-referential document %r: %s' % (ctext, describe(o)),
                              loadcase.payload(spec, ctext, kind='cycle'))
            else:
                res.hist['cycle:other-exception'] += 1     # an error, as required; its type is C08's business
    res.hist['models'] += 1
    res.hist['family:' + fam] += 1
    return res


def finish(total, tier):
    for k, n in (('alias:ok', 500), ('alias:fail', 500), ('cycle:rejected', 500)):
        if total.hist[k] < n:
            raise core.Vacuous('%s reached only %d times' % (k, total.hist[k]))
    if total.hist['alias-render-mismatch'] > (total.hist['alias:ok'] + total.hist['alias:fail']) // 10:
        raise core.Vacuous('too many alias render mismatches: %d' % total.hist['alias-render-mismatch'])


def replay(payload):
    case = loadcase.Case(payload['spec'])
    if payload['kind'] == 'shared-cycle':
        res = core.Result()
        shared_cycle_unit(res, 'quick')
        return bool(res.violations), (res.violations[0]['what'] if res.violations else 'shared cyclic documents are rejected promptly')
    if payload['kind'] == 'cycle-stream':
        o = case.impl_stream(payload['text'])
        viol = o[0] == 'ok' or (o[0] == 'exc' and isinstance(o[1], (RecursionError, MemoryError)))
        return viol, 'cycle %r as a stream: %s' % (payload['text'], describe(o))
    if payload['kind'] == 'alias-stream':
        o0 = case.impl(payload['text'])
        o2 = case.impl_stream(payload['aliased'])
        return (not same(o0, o2)), 'expanded: %s | aliased, as a stream: %s' % (describe(o0), describe(o2))
    if payload['kind'] == 'cycle':
        o = case.impl(payload['text'])
        viol = o[0] == 'ok' or (o[0] == 'exc' and isinstance(o[1], (RecursionError, MemoryError)))
        return viol, 'cycle %r: %s' % (payload['text'], describe(o))
    o0 = case.impl(payload['text'])
    o1 = case.impl(payload['aliased'])
    return (not same(o0, o1)), 'expanded: %s | aliased: %s' % (describe(o0), describe(o1))
