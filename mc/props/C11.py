"""C11 - load and dump functions are stateless, isolated, and leave PyYAML untouched.

(a) Histories.  Breadth-first search over operation sequences (create a load / dumps / dumps_json
    function over one of four class sets - two of them contain different classes with the same name -
    call a created function on one of six documents / on a value, also a value of another set's class).
    Every history runs in a process forked from a pristine parent (yaml and yatiml imported, nothing
    called); states are merged on a generic fingerprint of all yaml*/yatiml* module and class state plus
    the live function objects and the user's classes (de-duplication only, never an oracle).  Oracle:
    every call gives the result of the same call in its minimal history (creation + call); after every
    history a battery of yaml.safe_load / yaml.safe_dump probes answers as in the pristine process and
    the user's class dictionaries are unchanged.
(b) Threads.  Two-thread programs over shared and separate functions run under the deterministic
    scheduler of mc/sched.py; all schedules with at most k preemptions are enumerated depth-first
    (k = 1 at line granularity in all of yatiml, k = 2 at call granularity plus the lines of functions
    in which the shared-write audit saw shared state change).  Oracle: each thread's result equals the
    sequential reference.
"""
import collections
import enum
import multiprocessing
import os
import sys
import time
from typing import Any, Dict, List, Optional, Union

import yaml
import yatiml

from mc import core, history, sched

PROPERTY = 'C11'
SERIAL = True      # the units orchestrate their own process pools (level-synchronous BFS, schedule DFS)
RULE = ('(a) explicit-state BFS over operation histories, each executed in a process forked from a pristine parent, states '
        'de-duplicated on a generic fingerprint of all yaml/yatiml module and class state; every transition compares the '
        'call result with that of the minimal history and runs the PyYAML probe battery; (b) preemption-bounded DFS over '
        'thread schedules of two-thread programs under a deterministic settrace scheduler, every execution compared with '
        'the sequential reference; non-trivial = transitions that call a function after at least one other operation, and '
        'schedules with at least one preemption')
ASSUMPTIONS = [
    'the fingerprint is used only to merge states; hidden state it does not see can only make the search prune too much, '
    'never raise an alarm',
    'scheduling points are call events of functions in yatiml and in yaml/{constructor,representer,resolver,composer,'
    'serializer,nodes}.py plus line events as stated; switches elsewhere are not explored (CPython only switches threads '
    'between bytecodes; free-threaded builds are out of scope)',
    'results are compared as canonical text of the value / exception type; message texts are not compared',
]


def BOUNDS(tier):
    return {'history_depth': 3 if tier == 'quick' else 5, 'operations': len(ALL_OPS),
            'thread_programs': len(PROGRAMS),
            'schedules': ('calls of yatiml + 6 PyYAML modules: <= 1 preemption; every line of yatiml: <= 1 preemption on %d programs'
                          % len(QUICK_LINE_PROGRAMS)) if tier == 'quick' else
                         ('calls of yatiml + 6 PyYAML modules + lines of audited functions: <= 1 preemption; every line of yatiml: '
                          '<= 1 preemption; calls of yatiml + lines of audited functions: <= 2 preemptions'),
            'history_depth_note': 'all histories up to the depth, modulo merging of states with equal fingerprint'}


# ---------------------------------------------------------------- user classes (defined once, before any fork)

def _mk_classes():
    ns = {}

    class A:
        def __init__(self, x: int, y: str = 'd') -> None:
            self.x = x
            self.y = y
    ns['S1'] = [A]

    class A:     # noqa: F811  - another class with the same name
        def __init__(self, x: str) -> None:
            self.x = x
    ns['S2'] = [A]

    class A:     # noqa: F811
        def __init__(self, x: int) -> None:
            self.x = x

    class B(A):
        def __init__(self, x: int, z: int) -> None:
            super().__init__(x)
            self.z = z
    ns['S3'] = [A, B]

    class B(A):     # noqa: F811  - another subclass of the SAME base object, with the same name
        def __init__(self, x: int, w: int) -> None:
            super().__init__(x)
            self.w = w
    ns['S3b'] = [A, B]

    class Col(enum.Enum):
        red = 1
        yes = 2

    class Ex:
        def __init__(self, x: int, c: Optional[Col] = None, a: Any = None,
                     _yatiml_extra: Optional[collections.OrderedDict] = None) -> None:
            self.x = x
            self.c = c
            self.a = a
            self._yatiml_extra = _yatiml_extra if _yatiml_extra is not None else collections.OrderedDict()
    ns['SX'] = [Ex, Col]

    class Pc:
        """a class with a short scalar form: the sweeten replaces the node"""
        def __init__(self, digits: int, letters: str) -> None:
            self.digits = digits
            self.letters = letters

        @classmethod
        def _yatiml_recognize(cls, node: yatiml.UnknownNode) -> None:
            pass

        @classmethod
        def _yatiml_savorize(cls, node: yatiml.Node) -> None:
            if node.is_scalar(str):
                t = node.get_value()
                node.make_mapping()
                node.set_attribute('digits', int(t[:4]))
                node.set_attribute('letters', t[5:])

        @classmethod
        def _yatiml_sweeten(cls, node: yatiml.Node) -> None:
            node.set_value('%d %s' % (node.get_attribute('digits').get_value(), node.get_attribute('letters').get_value()))
    ns['SP'] = [Pc]

    class Cfg:
        """default-value sweetening with an override table that a derived class inherits"""
        def __init__(self, names: Optional[List[str]] = None, level: int = 1) -> None:
            self.names = names if names is not None else []
            self.level = level
        _yatiml_defaults = {'names': []}      # type: Dict[str, Any]

        @classmethod
        def _yatiml_sweeten(cls, node: yatiml.Node) -> None:
            node.remove_attributes_with_default_values(cls)

    class VCfg(Cfg):
        def __init__(self, names: Optional[List[str]] = None, level: int = 3) -> None:
            super().__init__(names, level)

        @classmethod
        def _yatiml_sweeten(cls, node: yatiml.Node) -> None:
            node.remove_attributes_with_default_values(cls)
    ns['S4'] = [Cfg, VCfg]

    class H:
        """a base class whose hooks are visible in the result: whether they run depends on whether THIS function registered H"""
        def __init__(self, x: int) -> None:
            self.x = x

        @classmethod
        def _yatiml_savorize(cls, node: yatiml.Node) -> None:
            node.rename_attribute('old', 'g')

        @classmethod
        def _yatiml_sweeten(cls, node: yatiml.Node) -> None:
            node.rename_attribute('g', 'old')

    class G(H):
        def __init__(self, x: int, g: int = 0) -> None:
            super().__init__(x)
            self.g = g
    ns['S5'] = [G, H]        # G with its base registered
    ns['S5d'] = [G]          # the same G, base not registered with this function
    for k, v in ns.items():
        for c in v:
            c._fp_open = True          # let the fingerprint look inside the user's classes
            if '_set' not in vars(c):
                c._set = k
    return ns


SETS = _mk_classes()
ROOT = {'S1': SETS['S1'][0], 'S2': SETS['S2'][0], 'S3': SETS['S3'][0], 'S3b': SETS['S3b'][0], 'SX': SETS['SX'][0], 'SP': SETS['SP'][0],
        'S4': SETS['S4'][0], 'S5': SETS['S5'][0], 'S5d': SETS['S5d'][0]}
# dump functions: name -> classes registered
DUMPERS = collections.OrderedDict([('S1', SETS['S1']), ('S2', SETS['S2']), ('S3', SETS['S3']), ('S4a', SETS['S4'][:1]),
                                   ('S4b', SETS['S4'])])
DOCS = collections.OrderedDict([
    ('v1', '{x: 1}'), ('v2', '{x: a}'), ('tA', '!A {x: 1}'), ('tB', '!B {x: 1, z: 2}'), ('bad', '{q: 1}'), ('err', '{x: 1'),
    ('l1', '[{x: 1}]'), ('d1', '{k: 1}'), ('b2', '{x: 1, w: 2}'), ('o1', '{x: 1, old: 5}'), ('o2', '{x: 2, g: 3}'),
])
# load functions: name -> (class set, result type); several share a class set (or have none) and differ in the result type
LOADERS = collections.OrderedDict([
    ('S1', ('S1', None)), ('S2', ('S2', None)), ('S3', ('S3', None)), ('ANY', (None, None)),
    ('S1L', ('S1', 'list')), ('S1O', ('S1', 'opt')), ('DICT', (None, 'dict')), ('STRS', (None, 'strs')),
    ('S3b', ('S3b', None)),
])
LOADER_DOCS = {'S1': ['v1', 'v2', 'tA', 'tB', 'bad', 'err'], 'S2': ['v1', 'v2', 'tA', 'tB', 'bad', 'err'],
               'S3': ['v1', 'v2', 'tA', 'tB', 'bad', 'err', 'b2'], 'S3b': ['v1', 'tB', 'b2'], 'ANY': ['v1', 'v2', 'tA', 'tB', 'bad', 'err'],
               'S1L': ['l1', 'v1', 'err'], 'S1O': ['v1', 'l1', 'bad'], 'DICT': ['d1', 'v1', 'l1'], 'STRS': ['l1', 'd1', 'v2']}


def value(name):
    if name == 'a1':
        return SETS['S1'][0](1, 'yes')
    if name == 'a2':
        return SETS['S2'][0]('1e5')
    if name == 'a3':
        return SETS['S3'][0](3)
    if name == 'b3':
        return SETS['S3'][1](1, 2)
    if name == 'cfg3':
        return SETS['S4'][0](['a'], 3)
    if name == 'cfg1':
        return SETS['S4'][0]([], 1)
    if name == 'vcfg1':
        return SETS['S4'][1](['a'], 1)
    if name == 'g1':
        return SETS['S5'][0](1)
    if name == 'g2':
        return [SETS['S5'][0](2, 3), SETS['S5'][0](4)]
    if name == 'dup3':
        # one object referenced twice: fine for YAML (anchor), refused midway by the JSON emitter (RuntimeError)
        o = SETS['S3'][1](1, 2)
        return {'k': [o, {'n': o}]}
    raise KeyError(name)


VALUES = {'S1': ['a1', 'a2'], 'S2': ['a2', 'a1'], 'S3': ['a3', 'b3', 'a1', 'dup3'], 'S4a': ['cfg3', 'cfg1'],
          'S4b': ['vcfg1', 'cfg3']}

# functions that only take part in the cross-function histories (not in the breadth-first alphabet)
X_LOADERS = collections.OrderedDict([('S5', ('S5', None)), ('S5d', ('S5d', None))])
X_LOADER_DOCS = {'S5': ['v1', 'o1', 'o2'], 'S5d': ['v1', 'o1', 'o2']}
X_DUMPERS = collections.OrderedDict([('S5', SETS['S5']), ('S5d', SETS['S5d'])])
X_VALUES = {'S5': ['g1', 'g2'], 'S5d': ['g1', 'g2']}
MK_OPS = [('mkL', s) for s in LOADERS] + [('mkD', s) for s in DUMPERS] + \
         [('mkJ', s) for s in ('S1', 'S2', 'S3')]
CALL_OPS = [('L', s, d) for s in LOADERS for d in LOADER_DOCS[s]] + \
           [('D', s, v) for s in DUMPERS for v in VALUES[s]] + [('J', s, v) for s in ('S1', 'S2', 'S3') for v in VALUES[s]]
ALL_OPS = MK_OPS + CALL_OPS
X_CALL_OPS = [('L', s, d) for s in X_LOADERS for d in X_LOADER_DOCS[s]] + [('D', s, v) for s in X_DUMPERS for v in X_VALUES[s]] + \
             [('J', s, v) for s in X_DUMPERS for v in X_VALUES[s]]


def canon(v, depth=0):
    if depth > 20:
        return '<deep>'
    if isinstance(v, (str, int, float, bool, type(None))):
        return repr(v)
    if isinstance(v, list):
        return '[' + ', '.join(canon(x, depth + 1) for x in v) + ']'
    if isinstance(v, dict):
        return type(v).__name__ + '{' + ', '.join('%s: %s' % (canon(k, depth + 1), canon(x, depth + 1)) for k, x in v.items()) + '}'
    if isinstance(v, enum.Enum):
        return '%s.%s' % (type(v).__name__, v.name)
    if hasattr(type(v), '_set'):
        return '%s/%s(%s)' % (type(v)._set, type(v).__name__,
                              ', '.join('%s=%s' % (k, canon(x, depth + 1)) for k, x in sorted(vars(v).items())))
    return '%s:%r' % (type(v).__name__, v)


def outcome(fn, *args, **kw):
    try:
        return 'ok:' + canon(fn(*args, **kw))
    except yatiml.RecognitionError:
        return 'RecognitionError'
    except yaml.YAMLError as e:
        return 'YAMLError:' + type(e).__name__
    except BaseException as e:     # noqa
        return 'EXC:' + type(e).__name__


def scribble(v, depth=0):
    """change the loaded value in place, all the way down (attributes, list items, dict entries)"""
    if depth > 10:
        return
    if isinstance(v, list):
        for x in v:
            scribble(x, depth + 1)
        v.append('scribbled')
    elif isinstance(v, dict):
        for x in list(v.values()):
            scribble(x, depth + 1)
        v['scribbled'] = 1
    elif hasattr(v, '__dict__') and hasattr(type(v), '_set'):
        for x in list(vars(v).values()):
            scribble(x, depth + 1)
        for name in list(vars(v)):
            setattr(v, name, 'scribbled')


def apply_op(slots, op):
    """execute one operation on the slot table; returns the outcome text"""
    k = op[0]
    if k == 'mkL':
        s = op[1]
        cset, shape = LOADERS[s] if s in LOADERS else X_LOADERS[s]
        if s == 'ANY':
            slots[('L', s)] = yatiml.load_function()
        elif cset is None:
            slots[('L', s)] = yatiml.load_function(Dict[str, int] if shape == 'dict' else List[str])
        elif shape == 'list':
            slots[('L', s)] = yatiml.load_function(List[ROOT[cset]], *SETS[cset])
        elif shape == 'opt':
            slots[('L', s)] = yatiml.load_function(Optional[ROOT[cset]], *SETS[cset])
        else:
            slots[('L', s)] = yatiml.load_function(ROOT[s], *SETS[s][1:])
        return 'created'
    if k == 'mkD':
        slots[('D', op[1])] = yatiml.dumps_function(*(DUMPERS[op[1]] if op[1] in DUMPERS else X_DUMPERS[op[1]]))
        return 'created'
    if k == 'mkJ':
        slots[('J', op[1])] = yatiml.dumps_json_function(*SETS[op[1]])
        return 'created'
    if k == 'L':
        box = []

        def load_and_keep(text):
            box.append(slots[('L', op[1])](text))
            return box[0]
        out = outcome(load_and_keep, DOCS[op[2]])
        if box:
            scribble(box[0])       # the caller owns the result: whatever it does to it must not show in a later call
        return out
    if k == 'D':
        return outcome(slots[('D', op[1])], value(op[2]))
    if k == 'J':
        return outcome(slots[('J', op[1])], value(op[2]), indent=2)
    raise ValueError(op)


def enabled(created, op):
    k = op[0]
    if k.startswith('mk'):
        return (k[2], op[1]) not in created
    return (k, op[1]) in created


def creator_of(op):
    return ('mk' + op[0], op[1])


# ---------------------------------------------------------------- probes on PyYAML and on the user's classes

def probes():
    out = []
    for t in ('yes', '1e5', 'on', '1.5', '0x1F', '2001-01-01', '[a, {b: 1}]', '!A {x: 1}', 'true', '1_000', '.inf',
              '!Path a/b', '!!python/name:os.system'):
        out.append(outcome(yaml.safe_load, t))
    import pathlib
    for v in ({'b': 1, 'a': [1.5, None, True, 'yes', '1e5', 'on']}, collections.OrderedDict([('k', 1)]),
              pathlib.PurePosixPath('a/b'), value('a1'), 'multi\nline', 1e17, float('inf'), [[]]):
        out.append(outcome(yaml.safe_dump, v))
    out.append(outcome(yaml.dump, {'k': [1, 'x']}))
    out.append(outcome(yaml.load, 'a: 1', Loader=yaml.SafeLoader))
    out.append(outcome(yaml.load, '!!python/tuple [1]', Loader=yaml.FullLoader))
    return out


def class_snapshot():
    out = []
    for s in sorted(SETS):
        for c in SETS[s]:
            out.append((s, c.__name__, sorted((k, type(v).__name__, repr(v) if isinstance(v, (dict, list, tuple, set, str, int,
                                                                                                  float, bool, type(None))) else '')
                                              for k, v in vars(c).items()),
                        [b.__name__ for b in c.__bases__], sorted(c.__subclasses__(), key=lambda x: x.__name__).__len__()))
    return out


def _roots(slots):
    return [dict((repr(k), v) for k, v in slots.items())] + [c for s in sorted(SETS) for c in SETS[s]]


def run_history(hist):
    """executed in a forked child: returns (outcomes per step, fingerprint, probes, class snapshot)"""
    slots = {}
    outs = [apply_op(slots, tuple(op)) for op in hist]
    fp = history.fingerprint(_roots(slots))
    return outs, fp, probes(), class_snapshot()


PRISTINE_FP = None


def _run_one(hist):
    return history.in_child(run_history, list(hist))


def _expand(hist):
    """pool worker: run hist + op in a fresh child for every enabled op"""
    created = {(op[0][2], op[1]) for op in hist if op[0].startswith('mk')}
    if history.fingerprint(_roots({})) != PRISTINE_FP:
        return [('worker-not-pristine', None, None)]
    out = []
    for op in ALL_OPS:
        if enabled(created, op):
            out.append((op, history.in_child(run_history, list(hist) + [op])))
    return out


def explore_histories(tier, res):
    global PRISTINE_FP
    depth = 3 if tier == 'quick' else 5
    PRISTINE_FP = history.fingerprint(_roots({}))
    st, base = history.in_child(run_history, [])
    if st != 'ok':
        raise core.HarnessError('pristine child failed: %s' % (base,))
    _, fp0, probes0, snap0 = base
    # minimal histories: creation + call
    minimal = {}
    for op in CALL_OPS + X_CALL_OPS:
        st, r = history.in_child(run_history, [creator_of(op), op])
        if st != 'ok':
            raise core.HarnessError('minimal history failed: %s %s' % (op, r))
        minimal[op] = r[0][-1]
    res.extra['minimal_outcomes'] = dict(collections.Counter(v.split(':')[0] for v in minimal.values()))
    # isolation sanity of the alphabet itself: a class of another set must be unknown
    if not minimal[('L', 'S1', 'tB')].startswith('RecognitionError') or not minimal[('D', 'S1', 'a2')].startswith('YAMLError'):
        res.hist['alphabet-note:foreign-class-accepted-in-minimal-history'] += 1
    seen = {fp0: ()}
    frontier = [()]
    ctx = multiprocessing.get_context('fork')
    with ctx.Pool(core.NPROC) as pool:
        for level in range(1, depth + 1):
            nxt = []
            for hist, exp in zip(frontier, pool.imap(_expand, frontier, chunksize=1)):
                for op, (st, r) in exp:
                    if op == 'worker-not-pristine':
                        raise core.HarnessError('a pool worker is no longer pristine')
                    res.transitions += 1
                    res.traces += 1
                    h2 = list(hist) + [op]
                    pl = {'kind': 'history', 'history': [list(o) for o in h2]}
                    if st != 'ok':
                        res.violation('C11:history:child-died', 'history %s: %s' % (h2, str(r)[:300]), pl)
                        continue
                    outs, fp, pr, snap = r
                    if not op[0].startswith('mk'):
                        if len(hist) > 1:
                            res.nontrivial += 1
                        if outs[-1] != minimal[op]:
                            res.violation('C11:history:result-depends-on-history:%s' % op[0],
                                          'after %s the call %s gives %s; in its minimal history it gives %s' % (
                                              list(hist), op, outs[-1][:200], minimal[op][:200]), pl)
                            continue
                        res.hist['call-same-as-minimal:' + outs[-1].split(':')[0]] += 1
                    if pr != probes0:
                        diff = [(i, a, b) for i, (a, b) in enumerate(zip(probes0, pr)) if a != b]
                        res.violation('C11:history:pyyaml-behaviour-changed',
                                      'after %s yaml.safe_load/safe_dump probe %d gives %s, pristine %s' % (
                                          h2, diff[0][0], diff[0][2][:150], diff[0][1][:150]), pl)
                        continue
                    if snap != snap0:
                        res.violation('C11:history:user-class-changed', 'after %s the user\'s classes changed: %s' % (
                            h2, [a for a, b in zip(snap, snap0) if a != b][:1]), pl)
                        continue
                    if fp not in seen:
                        seen[fp] = tuple(h2)
                        res.states += 1
                        if level < depth:
                            nxt.append(tuple(h2))
                        if len(h2) == 3:
                            res.sample({'history': [list(o) for o in h2], 'outcomes': outs}, 2)
            res.extra['frontier_level_%d' % level] = len(nxt)
            frontier = nxt
    # cross-function histories of length four: use one function, then create and use another one whose classes have the
    # same names or share a base class object with the first (every pair of such functions, every pair of their calls)
    related = [('L', 'S3', 'S3b'), ('L', 'S3b', 'S3'), ('L', 'S1', 'S2'), ('L', 'S2', 'S1'), ('L', 'S1', 'S3'), ('L', 'S3', 'S1'),
               ('D', 'S1', 'S2'), ('D', 'S2', 'S1'), ('D', 'S4a', 'S4b'), ('D', 'S4b', 'S4a'), ('J', 'S1', 'S2'), ('J', 'S3', 'S1')]
    # a class whose registered base has hooks, registered with and without that base (the same class objects)
    related += [(k, a, b) for k in ('L', 'D', 'J') for a, b in (('S5', 'S5d'), ('S5d', 'S5'))]
    # the same function used twice (the second call must not see what the caller did to the first result)
    related += [('L', f, f) for f in LOADERS]
    cross = []
    for kind, fa, fb in related:
        for o1 in [o for o in CALL_OPS + X_CALL_OPS if o[0] == kind and o[1] == fa]:
            for o2 in [o for o in CALL_OPS + X_CALL_OPS if o[0] == kind and o[1] == fb]:
                if fa == fb:
                    cross.append((creator_of(o1), o1, o2, o1))
                else:
                    cross.append((creator_of(o1), o1, creator_of(o2), o2))
    ctx = multiprocessing.get_context('fork')
    with ctx.Pool(core.NPROC) as pool:
        for h4, (st, r) in zip(cross, pool.imap(_run_one, cross, chunksize=4)):
            res.transitions += 1
            res.traces += 1
            res.nontrivial += 1
            pl = {'kind': 'history', 'history': [list(o) for o in h4]}
            if st != 'ok':
                res.violation('C11:history:child-died', 'history %s: %s' % (list(h4), str(r)[:300]), pl)
                continue
            outs, fp, pr, snap = r
            for i in [j for j, o in enumerate(h4) if not o[0].startswith('mk')]:
                if outs[i] != minimal[h4[i]]:
                    res.violation('C11:history:result-depends-on-history:%s' % h4[i][0],
                                  'in the history %s the call %s gives %s; in its minimal history it gives %s' % (
                                      list(h4), h4[i], outs[i][:200], minimal[h4[i]][:200]), pl)
                    break
            else:
                if pr != probes0 or snap != snap0:
                    res.violation('C11:history:pyyaml-or-classes-changed', 'after %s' % (list(h4),), pl)
                else:
                    res.hist['cross-function-histories-ok'] += 1
    res.hist['history-states'] = len(seen)
    res.extra['history_depth'] = depth


# ---------------------------------------------------------------- (b) threads

YDIR = os.path.dirname(os.path.abspath(yatiml.__file__)) + os.sep
PDIR = os.path.dirname(os.path.abspath(yaml.__file__)) + os.sep
WATCHED = (YDIR,) + tuple(PDIR + f for f in ('constructor.py', 'representer.py', 'resolver.py', 'composer.py',
                                             'serializer.py', 'nodes.py'))
BIGDOC = '{x: 1, c: red, a: [1, {k: !A v}], zz: {q: [!B 1, yes]}}'
BIGDOC2 = '{x: 2, c: yes, a: {p: 1.5}, zy: [a, b]}'


def _setup_program(name):
    """returns the thread bodies; runs in the child before the threads start.  A trailing '~' swaps the two
    bodies, so that the other thread is the one that gets preempted first."""
    if name.endswith('~'):
        return list(reversed(_setup_program_(name[:-1])))
    return _setup_program_(name)


def _setup_program_(name):
    L = yatiml.load_function
    s1, s2, s3, sx = SETS['S1'], SETS['S2'], SETS['S3'], SETS['SX']
    if name == 'same-load-2-valid':
        la = L(s1[0])
        return [lambda: la('{x: 1, y: a}'), lambda: la('{x: 2, y: b}')]
    if name == 'same-load-valid-invalid':
        la = L(s1[0])
        return [lambda: la('{x: 1}'), lambda: la('{x: a}')]
    if name == 'same-named-classes':
        la, lb = L(s1[0]), L(s2[0])
        return [lambda: la('{x: 1}'), lambda: lb('{x: a}')]
    if name == 'creation-vs-call':
        la = L(s1[0])
        return [lambda: la('{x: 1}'), lambda: L(s2[0])('{x: a}')]
    if name == 'same-dumps-twice':
        ds = yatiml.dumps_function(*s3)
        o, o2 = s3[1](1, 2), s3[1](3, 4)      # two different objects of one class: a mix-up must be visible
        return [lambda: ds([o, o]), lambda: ds({'k': o2, 'l': [o2]})]
    if name == 'dumps-vs-dumps-json':
        ds, dj = yatiml.dumps_function(*s3), yatiml.dumps_json_function(*s3)
        o, o2 = s3[1](1, 2), s3[1](3, 4)
        return [lambda: ds([o]), lambda: dj({'k': [o2, {'n': None}]}, indent=2)]
    if name == 'same-dumps-json-twice':
        dj = yatiml.dumps_json_function(*s3)
        return [lambda: dj({'k': [s3[1](1, 2), {'n': None}]}, indent=2), lambda: dj([[1, 'a'], {'b': s3[1](5, 6)}])]
    if name == 'same-dumps-sweetened':
        sp = SETS['SP']
        ds = yatiml.dumps_function(*sp)
        p, q = sp[0](1098, 'XG'), sp[0](2000, 'AB')
        return [lambda: ds([p, p, {'k': p}]), lambda: ds([q])]
    if name == 'dumps-vs-load':
        ds, la = yatiml.dumps_function(*s1), L(s1[0])
        return [lambda: ds(s1[0](1, 'yes')), lambda: la('{x: 1, y: b}')]
    if name == 'two-creations':
        return [lambda: L(s1[0])('{x: 1}'), lambda: L(s3[0], s3[1])('{x: 1, z: 2}')]
    if name == 'same-load-extras-any':
        lx = L(sx[0], sx[1])
        return [lambda: lx(BIGDOC), lambda: lx(BIGDOC2)]
    if name == 'hierarchy-and-tags':
        la = L(s3[0], s3[1])
        return [lambda: la('{x: 1, z: 2}'), lambda: la('!A {x: 1}')]
    if name == 'load-vs-safe-load':
        la = L(s1[0])
        return [lambda: la('{x: 1, y: yes}'), lambda: yaml.safe_load('{x: yes, y: 1e5, z: !!str 1}')]
    raise KeyError(name)


PROGRAMS = ['same-dumps-sweetened', 'same-load-2-valid', 'same-load-valid-invalid', 'same-named-classes', 'creation-vs-call', 'same-dumps-twice',
            'dumps-vs-dumps-json', 'same-dumps-json-twice', 'dumps-vs-load', 'two-creations', 'same-load-extras-any',
            'hierarchy-and-tags', 'load-vs-safe-load']


PROGRAMS = PROGRAMS + [p + '~' for p in PROGRAMS]
QUICK_LINE_PROGRAMS = ['same-dumps-sweetened', 'same-load-2-valid', 'same-dumps-json-twice', 'dumps-vs-dumps-json', 'dumps-vs-dumps-json~',
                       'same-load-valid-invalid', 'same-load-valid-invalid~']


def _wrap(b):
    return lambda: outcome(b)


def run_sequential(name, order):
    bodies = _setup_program(name)
    out = {}
    for tid in order:
        out[tid] = outcome(bodies[tid])
    return out


def run_schedule(name, prefix, gran, hot):
    bodies = _setup_program(name)
    watched = (YDIR,) if gran == 'ycall+hot' else WATCHED
    s = sched.Sched(prefix, watched, line_files=(YDIR,), hot=hot,
                    granularity={'ycall+hot': 'hot', 'call+hot': 'hot'}.get(gran, gran))
    r = s.run([_wrap(b) for b in bodies])
    out = {tid: (v[1] if v[0] == 'ok' else 'EXC:' + v[1]) for tid, v in r.items()}
    return out, s.choices, s.width, None, s.what


def audit(name):
    """shared-write audit, free of the scheduler: run each body once with the fingerprint taken at every call and
    return event of the watched code; returns the set of (file, function) in which shared state changed"""
    bodies = _setup_program(name)
    roots = [bodies] + [c for s in sorted(SETS) for c in SETS[s]]
    hot = set()
    nev = [0]
    for b in bodies:
        last = [history.fingerprint(roots)]
        stack = []

        def tr(frame, event, arg):
            fn = frame.f_code.co_filename
            if not fn.startswith(WATCHED):
                return None
            nev[0] += 1
            cur = history.fingerprint(roots)
            if cur != last[0]:
                # changed since the previous event: attribute to the function that was running (the caller)
                if stack:
                    hot.add(stack[-1])
                last[0] = cur
            me = (os.path.basename(fn), frame.f_code.co_name)
            stack.append(me)

            def loc(frame, event, arg):
                if event == 'return':
                    cur = history.fingerprint(roots)
                    if cur != last[0]:
                        hot.add(me)
                        last[0] = cur
                    if stack:
                        stack.pop()
                return loc
            return loc
        sys.settrace(tr)
        try:
            outcome(b)
        finally:
            sys.settrace(None)
    return sorted(hot), nev[0]


def no_audit(name):
    return [], 0


def _subtree(task):
    """pool worker: DFS below one prefix with the remaining preemption budget"""
    name, prefix, bound, gran, hot, ref = task
    n_exec = 0
    n_preempted = 0
    viol = []
    maxpts = 0
    stack = [list(prefix)]
    while stack:
        pre = stack.pop()
        st, r = history.in_child(run_schedule, name, pre, gran, hot)
        n_exec += 1
        if st != 'ok':
            viol.append(('C11:threads:execution-failed:' + name, 'schedule %s: %s' % (compact(pre), str(r)[:300]), pre))
            continue
        out, choices, width, who, what = r
        maxpts = max(maxpts, len(choices))
        if any(choices):
            n_preempted += 1
        if out != ref:
            sw = [(i, what[i]) for i, c in enumerate(choices) if c]
            viol.append(('C11:threads:result-differs-from-sequential:' + name,
                         'program %s, schedule with switches at %s: results %s, sequential %s' % (name, sw[:4], out, ref), choices))
            continue
        used = sum(1 for c in choices[:len(pre)] if c)
        if used < bound:
            for i in range(len(pre), len(choices)):
                for alt in range(1, width[i]):
                    stack.append(choices[:i] + [alt])
    return n_exec, n_preempted, viol, maxpts


def compact(choices):
    """schedule as the list of (point index, choice) of the non-default choices + length"""
    return {'len': len(choices), 'switches': [[i, c] for i, c in enumerate(choices) if c]}


def expand_compact(c):
    ch = [0] * c['len']
    for i, k in c['switches']:
        ch[i] = k
    return ch


def explore_threads(tier, res):
    ctx = multiprocessing.get_context('fork')
    if tier == 'quick':
        plans = [('call', 1, PROGRAMS), ('lines', 1, QUICK_LINE_PROGRAMS)]
    else:
        plans = [('call+hot', 1, PROGRAMS), ('lines', 1, PROGRAMS), ('ycall+hot', 2, PROGRAMS)]
    do_audit = tier != 'quick'
    with ctx.Pool(core.NPROC) as pool:
        # references and audits, in parallel
        refs = {}
        jobs = {}
        for name in PROGRAMS:
            jobs[name] = (pool.apply_async(history.in_child, (run_sequential, name, [0, 1])),
                          pool.apply_async(history.in_child, (run_sequential, name, [1, 0])),
                          pool.apply_async(history.in_child, (audit if do_audit else no_audit, name)))
        hots = {}
        for name in PROGRAMS:
            a, b, c = [j.get() for j in jobs[name]]
            if a[0] != 'ok' or b[0] != 'ok' or c[0] != 'ok':
                raise core.HarnessError('reference/audit failed for %s: %s %s %s' % (name, a, b, str(c)[:300]))
            if a[1] != b[1]:
                res.violation('C11:threads:sequential-order-matters:' + name,
                              'program %s: bodies run 0,1 give %s; run 1,0 give %s' % (name, a[1], b[1]),
                              {'kind': 'sequential', 'program': name})
            refs[name] = a[1]
            hots[name] = [tuple(x) for x in c[1][0]]
            res.extra.setdefault('audit', {})[name] = {'events': c[1][1], 'functions_with_shared_writes': ['%s:%s' % x for x in hots[name]]}
        res.extra['sequential_reference'] = {k: {str(t): v[:80] for t, v in r.items()} for k, r in refs.items()}
        tasks = []
        for gran, bound, progs in plans:
            for name in progs:
                hot = hots[name]
                # default schedule twice: determinism of the scheduler itself
                r1 = history.in_child(run_schedule, name, [], gran, hot)
                r2 = history.in_child(run_schedule, name, [], gran, hot)
                if r1[0] != 'ok' or r2[0] != 'ok':
                    raise core.HarnessError('default schedule failed for %s: %s' % (name, str(r1)[:300]))
                if r1[1][1:] != r2[1][1:]:
                    raise core.HarnessError('scheduler is not deterministic on %s (%s)' % (name, gran))
                out, choices, width, who, what = r1[1]
                res.traces += 2
                res.states += len(choices)
                res.extra.setdefault('points', {})['%s/%s' % (name, gran)] = len(choices)
                if out != refs[name]:
                    res.violation('C11:threads:result-differs-from-sequential:' + name,
                                  'program %s default schedule: %s vs sequential %s' % (name, out, refs[name]),
                                  {'kind': 'schedule', 'program': name, 'gran': gran, 'hot': hot, 'schedule': compact(choices)})
                firsts = [choices[:i] + [alt] for i in range(len(choices)) for alt in range(1, width[i])]
                # replay one preempted schedule twice
                if firsts:
                    mid = firsts[len(firsts) // 2]
                    q1 = history.in_child(run_schedule, name, mid, gran, hot)
                    q2 = history.in_child(run_schedule, name, mid, gran, hot)
                    if q1 != q2:
                        raise core.HarnessError('replay of a preempted schedule differs on %s (%s)' % (name, gran))
                if bound == 1:
                    chunk = 40
                    for k in range(0, len(firsts), chunk):
                        tasks.append(('multi', name, firsts[k:k + chunk], 1, gran, hot, refs[name]))
                else:
                    for p in firsts:
                        tasks.append(('one', name, p, bound, gran, hot, refs[name]))
        import random
        random.Random(int(os.environ.get('VERIF_SEED', '0') or 0)).shuffle(tasks)
        for kind, name, gran, bound, n_exec, n_pre, viol, maxpts in pool.imap_unordered(_task, tasks, chunksize=1):
            res.traces += n_exec
            res.transitions += n_exec
            res.nontrivial += n_pre
            res.hist['schedules:%s/bound%d' % (gran, bound)] += n_exec
            res.hist['schedules-with-preemption'] += n_pre
            for key, what, choices in viol:
                res.violation(key, what, {'kind': 'schedule', 'program': name, 'gran': gran,
                                          'hot': [list(x) for x in hots[name]], 'schedule': compact(choices)})
    res.extra['plans'] = ['%s granularity, preemption bound %d, %d programs' % (g, b, len(p)) for g, b, p in plans]


def _task(t):
    kind, name, p, bound, gran, hot, ref = t
    if kind == 'multi':
        tot = [0, 0, [], 0]
        for pre in p:
            a, b, v, m = _subtree((name, pre, bound, gran, hot, ref))
            tot[0] += a
            tot[1] += b
            tot[2] += v[:2]
            tot[3] = max(tot[3], m)
        return kind, name, gran, bound, tot[0], tot[1], tot[2][:3], tot[3]
    a, b, v, m = _subtree((name, p, bound, gran, hot, ref))
    return kind, name, gran, bound, a, b, v[:3], m


# ---------------------------------------------------------------- harness interface

def units(tier):
    return ['histories', 'threads']


def run_unit(unit, tier):
    res = core.Result()
    t0 = time.time()
    if unit == 'histories':
        explore_histories(tier, res)
    else:
        explore_threads(tier, res)
    res.extra['wall_' + unit] = round(time.time() - t0, 1)
    return res


def finish(total, tier):
    if total.hist['history-states'] < 50:
        raise core.Vacuous('only %d history states' % total.hist['history-states'])
    if total.hist['schedules-with-preemption'] < 1000:
        raise core.Vacuous('only %d preempted schedules' % total.hist['schedules-with-preemption'])
    if sum(v for k, v in total.hist.items() if k.startswith('call-same-as-minimal:ok')) < 100:
        raise core.Vacuous('too few successful calls inside histories')


def replay(payload):
    global PRISTINE_FP
    if payload['kind'] == 'history':
        hist = [tuple(o) for o in payload['history']]
        st, r = history.in_child(run_history, hist)
        st0, r0 = history.in_child(run_history, [])
        if st != 'ok':
            return True, 'history %s: %s' % (hist, r)
        outs, fp, pr, snap = r
        op = hist[-1]
        msgs = []
        viol = False
        if not op[0].startswith('mk'):
            stm, rm = history.in_child(run_history, [creator_of(op), op])
            if rm[0][-1] != outs[-1]:
                viol = True
                msgs.append('call %s gives %s after the history, %s in its minimal history' % (op, outs[-1], rm[0][-1]))
        if pr != r0[2]:
            viol = True
            msgs.append('PyYAML probes differ from the pristine process: %s' % [(a, b) for a, b in zip(r0[2], pr) if a != b][:2])
        if snap != r0[3]:
            viol = True
            msgs.append('user classes changed')
        return viol, '; '.join(msgs) or 'history %s behaves like its minimal histories' % (hist,)
    if payload['kind'] == 'sequential':
        a = history.in_child(run_sequential, payload['program'], [0, 1])
        b = history.in_child(run_sequential, payload['program'], [1, 0])
        return a != b, 'order 0,1: %s; order 1,0: %s' % (a, b)
    name = payload['program']
    hot = [tuple(x) for x in payload.get('hot', [])]
    ref = history.in_child(run_sequential, name, [0, 1])[1]
    st, r = history.in_child(run_schedule, name, expand_compact(payload['schedule']), payload['gran'], hot)
    if st != 'ok':
        return True, 'schedule failed: %s' % (r,)
    return r[0] != ref, 'schedule results %s; sequential %s' % (r[0], ref)
