"""C04 - a document cannot cause construction of objects the type model does not call for.

Models with Any / untyped / _yatiml_extra positions, all classes registered (including one
that the root type never reaches).  Documents: valid and mutated documents with every tag of
the tag alphabet injected at every node (pairs of nodes in thorough).  Oracles: constructor
log (also for loads that fail), plain data below Any positions equal to the tag-erased load,
and a canary package that records being imported.
"""
import atexit
import itertools
import os
import shutil
import sys
import tempfile

import yaml
import yatiml

from mc import catalog, core, docs, loadcase, models, refsem
from mc.docs import M, Q, S
from mc.loadcase import eqv, show
from mc.models import LOG, T

PROPERTY = 'C04'
RULE = ('choice tree: model x base document (valid + structural mutations) x node position x tag of the alphabet (x second '
        'position x tag in thorough); each leaf is loaded with the real load function; the constructor log, the loaded '
        'value and the canary are examined; non-trivial = documents in which an injected tag sits at or below an '
        'Any/untyped/extra position or names a registered class')
ASSUMPTIONS = [
    'a class is admissible if it is reachable from the document type through typed positions (or a registered subclass '
    'of such a class); classes only mentioned by tags are not',
    'explicit core tags (!!str 1) are part of the node\'s YAML type, so only application tags are "ignored" below Any',
    'a load that fails on a !!python/* tag is fail-safe and accepted; one that returns anything but plain data is not',
]

OTHER = {'name': 'Other', 'params': [('w', 'any', None)]}
IN = {'name': 'In', 'params': [('p', 'int'), ('q', 'any', None)]}


def model_list():
    out = []
    base = [OTHER, IN]
    out.append(('any-root', {'classes': base, 'root': 'any'}))
    out.append(('any-root', {'classes': base, 'root': ('list', 'any')}))
    out.append(('any-root', {'classes': base, 'root': ('dict', 'str', 'any')}))
    out.append(('any-root', {'classes': base, 'root': ('opt', ('list', 'any'))}))
    k1 = {'name': 'K', 'params': [('a', 'any'), ('i', ('cls', 'In'), None), ('u', 'untyped', None)], 'extra': True}
    out.append(('class-any', {'classes': base + [k1], 'root': ('cls', 'K')}))
    out.append(('class-any', {'classes': base + [k1], 'root': ('list', ('cls', 'K'))}))
    k2 = {'name': 'K', 'params': [('l', ('list', 'any')), ('d', ('dict', 'str', 'any'), None)]}
    out.append(('class-coll-any', {'classes': base + [k2], 'root': ('cls', 'K')}))
    k3 = {'name': 'K', 'params': [('x', 'int')], 'extra': True}
    out.append(('class-extra', {'classes': base + [k3], 'root': ('cls', 'K')}))
    out.append(('class-extra', {'classes': base + [k3], 'root': ('dict', 'str', ('cls', 'K'))}))
    a = {'name': 'A', 'params': [('x', 'int'), ('a', 'any', None)]}
    b = {'name': 'B', 'bases': ['A'], 'params': [('x', 'int'), ('y', 'int'), ('a', 'any', None)]}
    out.append(('hier-any', {'classes': base + [a, b], 'root': ('cls', 'A')}))
    out.append(('hier-any', {'classes': base + [a, b], 'root': ('union', [('cls', 'A'), 'int'])}))
    # parameters whose names start with an underscore are parameters like any other
    k5 = {'name': 'K', 'params': [('x', 'int'), ('_tok', 'any', None), ('_i', ('cls', 'In'), None)]}
    out.append(('underscore-param', {'classes': base + [k5], 'root': ('cls', 'K')}))
    out.append(('underscore-param', {'classes': base + [dict(k5, extra=True)], 'root': ('list', ('cls', 'K'))}))
    # underscored optional parameters next to _yatiml_extra, no savorize: a dashed key is an extra attribute (plain data)
    k6 = {'name': 'K', 'params': [('x', 'int'), ('a_b', 'any', None), ('i_n', ('cls', 'In'), None)], 'extra': True}
    out.append(('dashed-extra', {'classes': base + [k6], 'root': ('cls', 'K')}))
    k7 = {'name': 'K', 'params': [('x', 'int'), ('a_b', 'any', None), ('i_n', ('cls', 'In'), None)]}
    out.append(('dashed-extra', {'classes': base + [k7], 'root': ('list', ('cls', 'K'))}))
    # keyword-only parameters are not constructor parameters for yatiml: their keys are unknown / extra attributes
    kwdocs = [M([(S('str', 'x'), S('int', '1')), (S('str', 'k'), v)]) for v in (S('int', '2'), M([(S('str', 'p'), S('int', '1'))]))]
    kwdocs += [M([(S('str', 'x'), S('int', '1')), (S('str', 'u'), v)]) for v in (S('str', 'a'), M([(S('str', 'p'), S('int', '1'))]),
                                                                              Q([M([(S('str', 'p'), S('int', '1'))])]))]
    k8 = {'name': 'K', 'params': [('x', 'int')], 'kwonly': [('k', 'int'), ('u', 'untyped')], 'docs': kwdocs}
    out.append(('kwonly', {'classes': base + [dict(k8, extra=True)], 'root': ('cls', 'K')}))
    out.append(('kwonly', {'classes': base + [k8], 'root': ('cls', 'K')}))
    k4 = {'name': 'K', 'params': [('i', ('cls', 'In')), ('s', 'str', 'd')]}
    out.append(('typed-only', {'classes': base + [k4], 'root': ('cls', 'K')}))
    return out


def BOUNDS(tier):
    return {'models': len(model_list()), 'tags_per_document': 1 if tier == 'quick' else 2,
            'tag_alphabet': 'class names, !Unknown, !, 11 core tags, 5 python tags',
            'base_documents_per_model': 10 if tier == 'quick' else 16}


# ---------------------------------------------------------------- canary

_CANARY_DIR = None


def canary_setup():
    global _CANARY_DIR
    if _CANARY_DIR is None:
        d = tempfile.mkdtemp(prefix='verif_canary_')
        with open(os.path.join(d, 'canary.py'), 'w') as f:
            f.write('import os\n'
                    'open(os.path.join(os.path.dirname(__file__), "IMPORTED"), "a").write("imported\\n")\n'
                    'x = 1\n'
                    'class Boom:\n'
                    '    def __init__(self, *a, **k):\n'
                    '        open(os.path.join(os.path.dirname(__file__), "IMPORTED"), "a").write("Boom\\n")\n'
                    'def fire(*a, **k):\n'
                    '    open(os.path.join(os.path.dirname(__file__), "IMPORTED"), "a").write("fire\\n")\n')
        sys.path.insert(0, d)
        _CANARY_DIR = d
        pid = os.getpid()

        def cleanup():
            if os.getpid() == pid:
                shutil.rmtree(d, ignore_errors=True)
        atexit.register(cleanup)
    return _CANARY_DIR


def canary_fired():
    return 'canary' in sys.modules or os.path.exists(os.path.join(_CANARY_DIR, 'IMPORTED'))


# ---------------------------------------------------------------- type-directed positions

def admissible(spec):
    cl = docs.classes_of(spec)
    seen = set()

    def walk(t):
        t = T(t)
        if isinstance(t, str):
            return
        if t[0] == 'cls':
            if t[1] in seen:
                return
            seen.add(t[1])
            for p in cl[t[1]].get('params', []):
                walk(p[1])
            for d in spec['classes']:
                if t[1] in d.get('bases', []):
                    walk(('cls', d['name']))
        elif t[0] == 'list':
            walk(t[1])
        elif t[0] == 'dict':
            walk(t[1])
            walk(t[2])
        elif t[0] == 'opt':
            walk(t[1])
        elif t[0] == 'union':
            for x in t[1]:
                walk(x)
    walk(spec['root'])
    return seen


def below_any(spec, tree, path):
    """True if the node at path is at or below an Any/untyped/extra position, False if at a typed
    position, None if it cannot be decided (unions, hierarchies)"""
    cl = docs.classes_of(spec)
    t = T(spec['root'])
    node = tree
    for h in [None] + list(path):
        if h is not None:
            if node[0] == 'q':
                if not (isinstance(t, tuple) and t[0] == 'list'):
                    return None
                t = T(t[1])
                node = node[2][h]
            else:
                i, side = h
                key, val = node[2][i]
                if isinstance(t, tuple) and t[0] == 'dict':
                    t = T(t[1] if side == 0 else t[2])
                elif isinstance(t, tuple) and t[0] == 'cls':
                    c = cl[t[1]]
                    if any(t[1] in d.get('bases', []) for d in spec['classes']):
                        return None
                    if side == 0:
                        return False
                    ps = {p[0]: p for p in c.get('params', [])}
                    if key[0] == 's' and key[2] in ps:
                        t = T(ps[key[2]][1])
                    elif key[0] == 's' and key[2].replace('-', '_') in ps:
                        # a dashed key stands in for the underscored parameter while recognising (so its value is
                        # type-checked as that parameter) and is an extra attribute when constructing: the position
                        # is neither purely typed nor purely extra
                        return None
                    elif c.get('extra'):
                        return True
                    else:
                        return None
                else:
                    return None
                node = (key, val)[side]
        if t in ('any', 'untyped'):
            return True
        if isinstance(t, tuple) and t[0] in ('opt', 'union'):
            return None
    return False


# ---------------------------------------------------------------- the check

PLAINIFY = __import__('re').compile(r"(![A-Za-z0-9_.]+) '([A-Za-z0-9_.+-]+)'")


def node_at(node, path):
    for h in path:
        node = node.value[h] if isinstance(h, int) else node.value[h[0]][h[1]]
    return node


def check(case, spec, tree, injected, res, fam, adm, base_outcome):
    """injected: list of (path, tag) already applied to tree"""
    text, back = case.R.checked(tree)
    if text is None:
        try:
            text = case.R.render(tree)
        except Exception:     # noqa
            res.hist['unrenderable'] += 1
            return
        back = None
    o = case.impl(text)
    inits = [e for e in LOG if e[0] == 'init']
    res.traces += 1
    res.hist[o[0]] += 1
    pay = loadcase.payload(spec, text, fam=fam, injected=[[list(map(str, p)), t] for p, t in injected])
    tagdesc = ', '.join('%s at %s' % (t, list(p)) for p, t in injected)
    if canary_fired():
        res.violation('C04:canary', 'loading %r imported or called the canary module' % text, pay)
    conf = refsem.Conformance(case.ref)
    for _, cname, kw in inits:
        if cname not in adm:
            res.violation('C04:constructed-inadmissible:%s:%s' % (fam, cname),
                          'class %s was constructed while loading %r [%s]; the document type %s never calls for it' % (
                              cname, text, tagdesc, spec['root']), pay)
            continue
        C = case.b.classes[cname]
        params = {p[0]: p for p in case.ref.params(C)}
        for k, v in kw.items():
            if k == '_yatiml_extra':
                good = v is None or refsem.plain_data(v)
            else:
                good = k in params and (conf.conforms(v, params[k][1]) or (not params[k][2] and v is None))
            if not good:
                res.violation('C04:constructed-with-unchecked-argument:%s' % fam,
                              '%s.__init__ received %s=%s while loading %r [%s]' % (cname, k, show(v), text, tagdesc), pay)
    if o[0] == 'exc':
        res.violation('C04:exception:%s' % loadcase.exc_key(o[1]), '%s while loading %r' % (type(o[1]).__name__, text), pay)
        return
    if o[0] == 'ok' and not conf.conforms(o[1], case.b.root):
        res.violation('C04:non-plain-data:%s' % fam, 'load of %r [%s] returned %s' % (text, tagdesc, show(o[1])), pay)
    # tags beneath Any/untyped/extra positions are ignored
    if injected and base_outcome is not None:
        where = [below_any(spec, tree, p) for p, t in injected]
        kinds = ['app' if t.startswith('!') and not t.startswith('!!') else ('python' if 'python/' in t else 'core') for p, t in injected]
        if all(w is True for w in where) and all(k in ('app', 'python') for k in kinds):
            res.nontrivial += 1
            res.hist['tag-below-any'] += 1
            # three spellings of the same tree: as PyYAML's emitter writes it (tagged scalars come out single-quoted),
            # every scalar double-quoted, and the tagged scalars plain; "without the tag" a plain scalar is whatever
            # its text resolves to and a quoted one is a string
            variants = [('emitted', text, o)]
            if all(k == 'app' for k in kinds):
                try:
                    variants.append(('quoted', case.R.render(tree, 'dq'), None))
                except Exception:     # noqa
                    pass
                tplain = PLAINIFY.sub(r'\1 \2', text)
                if tplain != text:
                    variants.append(('plain', tplain, None))
            want_view = models.view(models.to_node(tree))
            for vname, vtext, vo in variants:
                try:
                    comp = case.R.compose(vtext)
                except yaml.YAMLError:
                    continue
                if models.view(comp) != want_view:
                    continue
                plain = tree
                at = dict(docs.positions(tree))
                for p, t in injected:
                    if at[p][0] == 's':
                        st = node_at(comp, p).style
                        plain = docs.replace(plain, p, ('s', case.ref.resolve(at[p][2]) if st is None else 'str', at[p][2]))
                    else:
                        plain = docs.replace(plain, p, (at[p][0], 'seq' if at[p][0] == 'q' else 'map', at[p][2]))
                try:
                    tp = case.R.render(plain)
                except Exception:     # noqa
                    continue
                if vo is None:
                    vo = case.impl(vtext)
                    res.traces += 1
                    res.transitions += 1
                op = case.impl(tp)
                res.hist['tag-below-any:' + vname] += 1
                same = (vo[0] == op[0] == 'ok' and eqv(vo[1], op[1])) or (vo[0] != 'ok' and op[0] != 'ok')
                failsafe = 'python' in kinds and vo[0] in ('rej', 'yamlerr')
                if not same and not failsafe:
                    res.violation('C04:tag-not-ignored:%s:%s:%s' % (fam, '+'.join(sorted(set(kinds))), vname),
                                  'document %r [%s beneath an Any/untyped/extra position] gives %s, without the tag(s) (%r) %s' % (
                                      vtext, tagdesc, show(vo[1]) if vo[0] == 'ok' else vo[0], tp, show(op[1]) if op[0] == 'ok' else op[0]),
                                  loadcase.payload(spec, vtext, fam=fam, injected=[[list(map(str, p)), t] for p, t in injected], plain=tp))
            if o[0] == 'ok':
                res.sample({'root': str(spec['root']), 'text': text, 'value': show(o[1])}, 2)
        elif any(t.startswith('!') and t[1:] in case.b.classes for p, t in injected):
            res.nontrivial += 1
    # accepted documents: constructor calls equal the reference's
    if o[0] == 'ok' and back is not None:
        impl_inits = sorted(repr((c, sorted(kw.items(), key=str))) for _, c, kw in inits)
        del LOG[:]
        r = case.reference(back)
        ref_inits = sorted(repr((c, sorted(kw.items(), key=str))) for e, c, kw in LOG if e == 'init')
        if r[0] == 'ok' and impl_inits != ref_inits:
            res.violation('C04:constructor-calls-differ:%s' % fam,
                          'loading %r ran constructors %s, the type model calls for %s' % (text, impl_inits, ref_inits), pay)
    return o


def base_docs(spec, case, tier):
    trees = docs.valid(spec, spec['root'])
    lim = 10 if tier == 'quick' else 16
    out = list(trees[:lim])
    # structurally richer documents below the Any positions
    deep = M([(S('str', 'k'), Q([S('str', 'v'), M([(S('str', 'p'), S('int', '1'))])])), (S('str', 'p'), S('int', '2'))])
    for t in trees[:3]:
        for path, node in docs.positions(t):
            if below_any(spec, t, path) is True and node[0] == 's' and not docs.is_key_path(path):
                out.append(docs.replace(t, path, deep))
                # empty collections: nothing below them, so the tag on the collection itself is all there is
                out.append(docs.replace(t, path, M([(S('str', 'e'), M([])), (S('str', 'f'), Q([])), (S('str', 'g'), Q([M([]), Q([])]))])))
                break
    # every key with an underscore also written with dashes (one key per document)
    for t in trees[:lim]:
        for path, node in docs.positions(t):
            if docs.is_key_path(path) and node[0] == 's' and '_' in node[2].strip('_'):
                out.append(docs.replace(t, path, (node[0], node[1], node[2][0] + node[2][1:].replace('_', '-'))))
    for t in trees[:2]:
        if t[0] == 'm':
            out.append(('m', t[1], t[2] + ((S('str', '_yatiml_extra'), M([(S('str', 'w'), S('int', '1'))])),)))
            out.append(('m', t[1], t[2] + ((S('str', 'self'), M([(S('str', 'w'), S('int', '1'))])),)))
    seen = set()
    res = []
    for t in out:
        if t not in seen:
            seen.add(t)
            res.append(t)
    return res


def units(tier):
    ms = model_list()
    return [(i, j) for i in range(len(ms)) for j in range(32 if tier == 'quick' else 48)]


_CACHE = {}


def run_unit(unit, tier):
    res = core.Result()
    canary_setup()
    mi, di = unit
    fam, spec = model_list()[mi]
    if mi not in _CACHE:
        case = loadcase.Case(spec)
        _CACHE[mi] = (case, base_docs(spec, case, tier))
    case, bases = _CACHE[mi]
    if di >= len(bases):
        return res
    adm = admissible(spec)
    names = [c['name'] for c in spec['classes']]
    tags = docs.tag_alphabet(names)
    base = bases[di]
    res.states += 1
    b0 = check(case, spec, base, [], res, fam, adm, None)
    if b0 is None:
        return res
    pos = [p for p, n in docs.positions(base)]
    for p in pos:
        node = docs.get_at(base, p)
        for tg in tags:
            if node[0] == 's' and tg in ('!!map', '!!seq', '!!set', '!!omap'):
                continue
            res.states += 1
            res.transitions += 1
            t1 = docs.replace(base, p, (node[0], tg, node[2]))
            check(case, spec, t1, [(p, tg)], res, fam, adm, b0)
            if tier == 'thorough':
                for p2 in pos:
                    if p2 <= p:
                        continue
                    n2 = docs.get_at(t1, p2)
                    for tg2 in ['!' + names[0], '!Unknown', docs.DANGEROUS_TAGS[0], '!!str'] + (['!' + names[-1]] if len(names) > 1 else []):
                        if n2[0] == 's' and tg2 in ('!!map', '!!seq'):
                            continue
                        res.states += 1
                        res.transitions += 1
                        t2 = docs.replace(t1, p2, (n2[0], tg2, n2[2]))
                        check(case, spec, t2, [(p, tg), (p2, tg2)], res, fam, adm, b0)
    res.hist['base-documents'] += 1
    return res


def finish(total, tier):
    if total.hist['tag-below-any'] < 500 or total.hist['ok'] < 500 or total.hist['rej'] < 500:
        raise core.Vacuous('tag-below-any=%d ok=%d rej=%d' % (total.hist['tag-below-any'], total.hist['ok'], total.hist['rej']))


def replay(payload):
    canary_setup()
    case = loadcase.Case(payload['spec'])
    o = case.impl(payload['text'])
    inits = [(c, kw) for e, c, kw in LOG if e == 'init']
    adm = admissible(payload['spec'])
    bad = [c for c, kw in inits if c not in adm]
    conf = refsem.Conformance(case.ref)
    nonconf = o[0] == 'ok' and not conf.conforms(o[1], case.b.root)
    detail = 'load(%r) -> %s; constructed %s; canary %s' % (payload['text'], show(o[1]) if o[0] == 'ok' else o[0], inits,
                                                            'FIRED' if canary_fired() else 'quiet')
    viol = bool(bad) or nonconf or canary_fired() or o[0] == 'exc'
    if not viol and payload.get('plain'):
        o2 = case.impl(payload['plain'])
        same = (o[0] == o2[0] == 'ok' and eqv(o[1], o2[1])) or (o[0] != 'ok' and o2[0] != 'ok')
        return not same, detail + '; without the tags (%r): %s' % (payload['plain'], show(o2[1]) if o2[0] == 'ok' else o2[0])
    if not viol and payload.get('injected'):
        # compare with the document without the injected tags
        node = case.R.compose(payload['text'])
        tree = models.view(node)
        for p, tg in payload['injected']:
            path = tuple(eval(x) for x in p)
            n = docs.get_at(tree, path)
            tree = docs.replace(tree, path, (n[0], models.P + {'s': 'str', 'q': 'seq', 'm': 'map'}[n[0]], n[2]) if n[0] != 's'
                                else (n[0], case.ref.resolve(n[2]), n[2]))
        if all(below_any(payload['spec'], tree, tuple(eval(x) for x in p)) is True for p, tg in payload['injected']):
            t2 = case.R.render(tree)
            o2 = case.impl(t2)
            same = (o[0] == o2[0] == 'ok' and eqv(o[1], o2[1])) or (o[0] != 'ok' and o2[0] != 'ok')
            py = any('python/' in tg for p, tg in payload['injected'])
            if not same and not (py and o[0] in ('rej', 'yamlerr')):
                viol = True
                detail += '; without the tags: %s' % (show(o2[1]) if o2[0] == 'ok' else o2[0])
    return viol, detail
