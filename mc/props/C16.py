"""C16 - UnknownNode.require_* accept exactly the nodes they describe.

The UnknownNode is obtained through the public seam (a class whose _yatiml_recognize
captures the object the real pipeline hands it); every helper is then called on every node
of the universe with every argument of the alphabets and compared with a predicate written
from the docstrings; require_attribute with a type is compared with the reference
recognition rules.  The node's (tag, value) tree is compared before and after.
"""
import itertools

import yaml
import yatiml

from mc import core, docs, loadcase, models, refsem
from mc.docs import M, Q, S
from mc.models import P, norm_tree, to_node, view

PROPERTY = 'C16'
RULE = ('choice tree: helper x arguments (attribute names, scalar values, types of the type language) x node (every tree '
        '<= 3 nodes + attribute mappings); each leaf calls the real helper on a fresh node; accept = returns, reject = '
        'RecognitionError, anything else or a modified node is a violation; non-trivial = accepting calls')
ASSUMPTIONS = [
    'the predicate written from the docstrings in mc/props/C16.py; typed require_attribute = reference recognition '
    '(mc/refsem.py) of the first attribute with that name is non-empty',
    'mappings with a duplicated attribute name are outside the stated domain and skipped for the attribute helpers',
]

SPEC = {'classes': [
    {'name': 'A', 'params': [('x', 'int')]},
    {'name': 'B', 'bases': ['A'], 'params': [('x', 'int'), ('y', 'int')]},
    {'name': 'E', 'kind': 'enum', 'members': ['red', 'true']},
    {'name': 'S', 'kind': 'userstring'},
    # a class written as a scalar with a recogniser of its own (the parsed-class recipe): under its own tag the hook
    # is shown the scalar as it would be without the tag - on a copy, the node in the document stays as it is
    {'name': 'V', 'kind': 'userstring', 'hooks': {'recognize': [['require_scalar', ['str']]]}},
    {'name': 'W', 'params': [('x', 'int')], 'hooks': {'recognize': [['require_attr', 'x', 'int']]}},
    {'name': 'Probe', 'params': [('zz', 'int')]},
], 'root': ('cls', 'Probe')}

TYPES = ['int', 'str', 'float', 'bool', 'none', 'date', 'path', 'any', 'buf', ('opt', 'int'), ('union', ['int', 'str']),
         ('list', 'int'), ('dict', 'str', 'int'), ('cls', 'E'), ('cls', 'S'), ('cls', 'A'), ('cls', 'B'),
         ('list', ('cls', 'A')), ('union', [('cls', 'A'), 'int']), ('union', ['bool', ('cls', 'E')]), ('list', 'any'),
         ('cls', 'V'), ('union', [('cls', 'V'), 'float']), ('list', ('cls', 'V')), ('cls', 'W'), ('union', [('cls', 'W'), ('cls', 'V')])]
VALUES = [1, 0, 'x', '1', True, False, None, 1.0, 1.5, 'true', 31]
SCALAR_TYPES = {'str': str, 'int': int, 'float': float, 'bool': bool, 'none': None}
TAGS = {'str': 'str', 'int': 'int', 'float': 'float', 'bool': 'bool', 'none': 'null'}


def BOUNDS(tier):
    return {'tiny_nodes': 3, 'attribute_values': len(ATTR_VALUES), 'types': len(TYPES), 'scalar_values': VALUES}


ATTR_VALUES = docs.ONE_PER_KIND + [S('int', '0x1F'), S('int', '0'), S('float', '1e3'), S('float', '1.0'), S('bool', 'True'),
                                   S('bool', 'false'), S('str', 'red'), S('str', 'true'), S('str', '1'), S('str', 'x'),
                                   S('null', ''), S('float', '.inf'), Q([S('int', '1')]), Q([S('str', 'a')]), M([]),
                                   M([(S('str', 'x'), S('int', '1'))]), M([(S('str', 'x'), S('int', '1'))], '!A'),
                                   M([(S('str', 'x'), S('int', '1')), (S('str', 'y'), S('int', '1'))]),
                                   M([(S('str', 'x'), S('int', '1')), (S('str', 'y'), S('int', '1'))], '!A'),
                                   M([(S('str', 'x'), S('int', '1'))], '!B'), M([(S('str', 'x'), S('int', '1'))], '!Unknown'),
                                   M([(S('str', 'x'), S('str', 'no'))]), M([(S('str', 'k'), S('int', '1'))]),
                                   S('!E', 'red'), S('!S', 'a'), S('!V', 'a'), S('!V', '1.2'), S('!V', 'true'), S('!V', ''),
                                   S('!S', '1.2'), S('!E', 'true'), S('!E', '1'), Q([S('!V', '1.2'), S('!V', 'a')]),
                                   M([(S('str', 'x'), S('int', '1'))], '!W'), M([(S('str', 'x'), S('str', 'no'))], '!W'),
                                   M([(S('str', 'y'), S('!V', '1'))], '!W')]


def universe():
    out = []
    seen = set()

    def add(t):
        t = norm_tree(t)
        if t not in seen:
            seen.add(t)
            out.append(t)
    for t in docs.tiny(3, ('a', 'b')):
        add(t)
    for v in ATTR_VALUES:
        add(M([(S('str', 'a'), v)]))
        add(M([(S('str', 'b'), S('int', '1')), (S('str', 'a'), v)]))
    # near-miss keys: dashed / underscored / differently cased / prefixed spellings of the attribute names
    for v in (S('int', '1'), S('str', 'x'), S('bool', 'true'), Q([S('int', '1')]), M([(S('str', 'x'), S('int', '1'))])):
        for key in ('a-b', 'a_b', 'A', 'ab', 'a ', 'a.b'):
            add(M([(S('str', key), v)]))
        add(M([(S('str', 'a-b'), v), (S('str', 'a_b'), S('str', 'other'))]))
        add(M([(S('str', 'a_b'), v), (S('str', 'a-b'), S('str', 'other'))]))
    # node kind and core tag disagree (explicit tags): the helpers speak about the node kind
    for tg in ('!!str', '!!int', '!!float', '!!bool', '!!null'):
        add(M([(S('str', 'a'), S('int', '1'))], tg))
        add(M([], tg))
        add(Q([S('int', '1')], tg))
        add(Q([], tg))
    for tg in ('!!map', '!!seq', '!A', '!Unknown'):
        add(S(tg, 'x'))
        add(S(tg, ''))
    add(M([(S('str', 'a'), S('int', '1'))], '!!seq'))
    add(Q([S('int', '1')], '!!map'))
    add(M([(S('str', 'a'), S('int', '1')), (S('str', 'a'), S('int', '2'))]))
    add(M([(S('int', '1'), S('int', '1'))]))
    add(M([(S('null', 'a'), S('int', '1'))]))
    for tg in ('null', 'bool', 'int', 'float', 'timestamp', '!A', '!Unknown'):
        for key in ('a', 'b'):
            add(M([(S(tg, key), S('int', '1'))]))
            add(M([(S(tg, key), S('int', '1')), (S('str', 'b' if key == 'a' else 'a'), S('str', 'x'))]))
    add(M([(Q([S('str', 'a')]), S('int', '1'))]))
    # a key of another type with the same text before / after the string key
    for tg in ('null', 'bool', 'int', 'float', '!A'):
        for v in (S('int', '1'), S('str', 'x'), Q([S('str', 'p')])):
            add(M([(S(tg, 'a'), S('float', '1.5')), (S('str', 'a'), v)]))
            add(M([(S('str', 'a'), v), (S(tg, 'a'), S('float', '1.5'))]))
    add(M([(S('str', 'a'), S('int', '1')), (S('str', 'b'), S('int', '1')), (S('str', 'a'), S('str', 'x'))]))
    add(M([(S('str', 'a'), S('str', 'x')), (S('str', 'a'), S('int', '1'))]))
    return out


_U = None


def get_unknown(case):
    """an UnknownNode as the real recognition pipeline creates it"""
    box = []
    Probe = case.b.classes['Probe']

    def rec(cls, node):
        box.append(node)
        raise yatiml.RecognitionError('probe')
    Probe._yatiml_recognize = classmethod(rec)
    try:
        case.load('zz: 1')
    except yatiml.RecognitionError:
        pass
    del Probe._yatiml_recognize
    if not box or not isinstance(box[0], yatiml.UnknownNode):
        raise core.HarnessError('could not obtain an UnknownNode through _yatiml_recognize')
    return box[0]


def has_dup(n, name):
    # only string keys are attribute names: '1: x' next to '"1": y' is one attribute called 1
    return n[0] == 'm' and sum(1 for a, b in n[2] if a[0] == 's' and a[1] == P + 'str' and a[2] == name) > 1


def predicate(case, helper, args, n):
    """the documented condition; None = outside the stated domain"""
    if helper == 'require_mapping':
        return n[0] == 'm'
    if helper == 'require_sequence':
        return n[0] == 'q'
    if helper == 'require_scalar':
        if n[0] != 's':
            return False
        return not args or any(n[1] == P + TAGS[t] for t in args)
    name = args[0]
    if n[0] != 'm':
        return False
    if has_dup(n, name):
        return None
    if helper == 'require_attribute':
        vs = [b for a, b in n[2] if a[0] == 's' and a[1] == P + 'str' and a[2] == name]
        if not vs:
            return False
        if len(args) == 1:
            return True
        T = models.type_of(case.b, args[1])
        return bool(case.ref.recognize(vs[0], T))
    vs = [b for a, b in n[2] if a[0] == 's' and a[1] == P + 'str' and a[2] == name]
    if not vs:
        return False
    want = args[1]
    wtag = P + {str: 'str', int: 'int', float: 'float', bool: 'bool', type(None): 'null'}[type(want)]
    b = vs[0]
    same = b[0] == 's' and b[1] == wtag and refsem.parse_scalar(b[1], b[2]) == want
    return same if helper == 'require_attribute_value' else not same


def call(case, un, helper, args, n):
    un.yaml_node = to_node(n)
    before = view(un.yaml_node)
    try:
        if helper == 'require_scalar':
            un.require_scalar(*[SCALAR_TYPES[t] for t in args])
        elif helper == 'require_attribute' and len(args) == 2:
            un.require_attribute(args[0], models.type_of(case.b, args[1]))
        else:
            getattr(un, helper)(*args)
        out = 'accept'
    except yatiml.RecognitionError:
        out = 'reject'
    except Exception as e:     # noqa
        out = e
    return out, before, view(un.yaml_node)


def calls():
    yield 'require_mapping', ()
    yield 'require_sequence', ()
    yield 'require_scalar', ()
    for t in SCALAR_TYPES:
        yield 'require_scalar', (t,)
    yield 'require_scalar', ('int', 'str')
    yield 'require_scalar', ('none', 'bool', 'float')
    for name in ('a', 'b', 'a_b', 'a-b'):
        yield 'require_attribute', (name,)
        for t in TYPES:
            yield 'require_attribute', (name, t)
        for v in VALUES:
            yield 'require_attribute_value', (name, v)
            yield 'require_attribute_value_not', (name, v)


DEEP_TYPES = TYPES + [('opt', ('cls', 'A')), ('dict', 'str', ('list', 'int')), ('list', ('union', ['int', 'str'])),
                      ('dict', 'str', ('cls', 'A')), ('list', ('cls', 'E')), ('dict', ('cls', 'S'), 'int'),
                      ('union', [('cls', 'A'), ('dict', 'str', 'int')]), ('union', [('list', 'int'), 'str', 'none']),
                      ('list', ('list', 'int')), ('union', [('cls', 'E'), ('cls', 'S')]), ('union', ['bool', 'buf', 'int'])]


def deep_universe(case, T, tier):
    """{a: V} and {b: 1, a: V} for every V of D(T): the valid trees of T, every single-point mutation of them (with
    every tag of the tag alphabet at every node) and every tree of <= 3 nodes - the document universe of the load
    checks, so that 'recognisable as that type by the rules the loader itself uses' is compared with the reference
    recognition on the same inputs as C02"""
    spec = dict(SPEC, root=T)
    tags = docs.tag_alphabet([c['name'] for c in SPEC['classes']], small=(tier == 'quick'))
    seen = set()
    for kind, site, t in loadcase.document_set(spec, case, tier, tags=tags, tiny_n=3 if tier == 'quick' else 4, k=2):
        for wrapped in (M([(S('str', 'a'), t)]), M([(S('str', 'b'), S('int', '1')), (S('str', 'a'), t)])):
            n = norm_tree(wrapped)
            if n not in seen:
                seen.add(n)
                yield n


def units(tier):
    return list(range(len(list(calls())))) + [('deep', i) for i in range(len(DEEP_TYPES))]


def eval_node(case, un, helper, args, n, res):
    if True:
        res.states += 1
        res.transitions += 1
        want = predicate(case, helper, args, n)
        if want is None:
            # outside the stated domain (the attribute is written twice): either answer is accepted, but the
            # helper still reports with RecognitionError only and leaves the node alone
            res.hist['outside-domain'] += 1
            out, before, after = call(case, un, helper, args, n)
            res.traces += 1
            payload = {'helper': helper, 'args': list(args), 'node': n}
            if before != after:
                res.violation('C16:%s:modifies-node' % helper, '%s%r on %s modified the node' % (helper, args, docs_show(n)), payload)
            if not isinstance(out, str):
                res.violation('C16:%s:raises-%s' % (helper, type(out).__name__),
                              '%s%r on %s raised %s: %s' % (helper, args, docs_show(n), type(out).__name__, out), payload)
            return
        out, before, after = call(case, un, helper, args, n)
        res.traces += 1
        payload = {'helper': helper, 'args': list(args), 'node': n}
        desc = '%s%r on %s' % (helper, args, docs_show(n))
        if before != after:
            res.violation('C16:%s:modifies-node' % helper, desc + ' modified the node: %s' % docs_show(after), payload)
        if not isinstance(out, str):
            res.violation('C16:%s:raises-%s' % (helper, type(out).__name__), desc + ' raised %s: %s' % (type(out).__name__, out), payload)
            return
        res.hist[helper + ':' + out] += 1
        if out == 'accept':
            res.nontrivial += 1
            if len(args) == 2:
                res.sample({'call': '%s%r' % (helper, args), 'node': docs_show(n), 'outcome': out}, 1)
        if (out == 'accept') != want:
            res.violation('C16:%s:%s-but-documented-%s' % (helper, out, 'accept' if want else 'reject'),
                          desc + ': %s, the documented condition says %s' % (out, 'accept' if want else 'reject'), payload)


_CASE = None


def run_unit(unit, tier):
    global _CASE, _U
    res = core.Result()
    if _CASE is None:
        _CASE = loadcase.Case(SPEC)
        _U = universe()
    case = _CASE
    un = get_unknown(case)
    deep = None
    if isinstance(unit, tuple):
        deep = DEEP_TYPES[unit[1]]
        helper, args = 'require_attribute', ('a', deep)
    else:
        helper, args = list(calls())[unit]
    for n in (_U if deep is None else deep_universe(case, deep, tier)):
        eval_node(case, un, helper, args, n, res)
    return res


def docs_show(t):
    from mc.props.C15 import show
    return show(t)


def finish(total, tier):
    for h in ('require_mapping', 'require_sequence', 'require_scalar', 'require_attribute', 'require_attribute_value',
              'require_attribute_value_not'):
        if total.hist[h + ':accept'] < 5 or total.hist[h + ':reject'] < 5:
            raise core.Vacuous('%s: accept=%d reject=%d' % (h, total.hist[h + ':accept'], total.hist[h + ':reject']))


def _tup(x):
    return tuple(_tup(i) for i in x) if isinstance(x, list) else x


def replay(payload):
    case = loadcase.Case(SPEC)
    un = get_unknown(case)
    n = _tup(payload['node'])
    args = tuple(_tup(a) for a in payload['args'])
    want = predicate(case, payload['helper'], args, n)
    out, before, after = call(case, un, payload['helper'], args, n)
    bad = before != after or not isinstance(out, str) or (want is not None and (out == 'accept') != want)
    return bad, '%s%r on %s -> %s (documented: %s), node %s' % (payload['helper'], args, docs_show(n), out, want,
                                                              'unchanged' if before == after else 'MODIFIED')
