"""C13 - load is invariant under changes that do not alter the document's meaning.

A metamorphic exploration that needs no reference model: for every (model, document) pair of
the auto-recognition catalogue (plus hierarchies and bool-unions) the base outcome is compared
with the outcome of every transformed partner:

  perm      every permutation of the keys of every mapping that sits at a class-typed position
            (<= 4 keys: all permutations; more: all rotations and the reversal)
  style     the same node tree serialised in flow, single-quoted, double-quoted, canonical,
            JSON-like and narrow block style (each composed back and compared with the tree)
  extra     an unrelated plain class, enum and string-like class additionally registered
            (appended and prepended)
  generic   List/Sequence/MutableSequence and Dict/Mapping/MutableMapping interchanged at every
            generic position of the model (all 3^n assignments for n <= 3 positions)
  buf       bool_union_fix added to every Union/Optional that contains bool

Outcome = equal value (class-exact, nan-aware; extras unordered under `perm` only) or failure.
"""
import itertools

import yaml
import yatiml

from mc import catalog, core, docs, loadcase, models
from mc.docs import M, Q, S
from mc.loadcase import show
from mc.models import LOG, T

PROPERTY = 'C13'
RULE = ('choice tree: model x document of D(T) x transformation (key permutation of every class mapping, 6 re-renderings, '
        'additional unrelated classes, every List/Dict variant assignment, bool_union_fix insertion); each leaf loads the '
        'transformed pair with the real load function and compares the two outcomes; non-trivial = pairs whose base '
        'document loads, plus rejected pairs whose transformation actually changed the text or the model')
ASSUMPTIONS = [
    'a mapping is "loaded as a class" when it sits at a position whose declared type mentions a registered class '
    '(type-directed walk over the model; Union members are all followed); mappings with duplicate keys are not permuted',
    'the order of _yatiml_extra follows the document, so it is compared as an unordered mapping under key permutation only',
    'which exception reports a failure is C08\'s business: any failure equals any failure',
]
STYLES = ['flow', 'sq', 'dq', 'canonical', 'json', 'narrow', 'literal', 'folded']

EXTRA_SPEC = {'classes': [{'name': 'Zunrel', 'params': [('zz_u', 'int'), ('zz_v', 'str', 'd')]},
                          {'name': 'Zen', 'kind': 'enum', 'members': ['zq1', 'true', 'a', 'k', 'v', 'k2', 'x y']},
                          {'name': 'Zstr', 'kind': 'userstring'}],
              'root': 'int'}


def BOUNDS(tier):
    return {'models': len(units(tier)), 'collection_width': 2, 'tiny_nodes': 2 if tier == 'quick' else 3,
            'mutated_valid_docs_per_model': 4 if tier == 'quick' else 12, 'max_keys_fully_permuted': 4,
            'generic_positions_fully_assigned': 3, 'styles': STYLES}


def more_models():
    """bool-unions and hierarchies (C02's catalogue has few of them)"""
    out = []
    en = {'name': 'En', 'kind': 'enum', 'members': ['true', 'False', 'red']}
    for t in (('opt', 'bool'), ('union', ['bool', 'int']), ('union', ['bool', 'str']), ('union', ['bool', ('cls', 'En')]),
              ('union', ['float', 'bool', 'str']), ('list', ('union', ['bool', 'int'])),
              ('dict', 'str', ('opt', 'bool'))):
        out.append(('bool-union', {'classes': catalog.BASE + [en], 'root': t}))
        out.append(('bool-union', {'classes': catalog.BASE + [en, {'name': 'K', 'params': [('u', t), ('v', 'int', 3)]}],
                                   'root': ('cls', 'K')}))
    for shape, adds in (('chain2', ['req']), ('chain2', ['opt']), ('chain3', ['req', 'req']), ('fork2', ['req', 'req']),
                        ('fork2', ['req', 'opt']), ('chainfork', ['req', 'req', 'opt']), ('diamond', ['req', 'req', 'none'])):
        spec = catalog.hierarchy(shape, adds)
        out.append(('hier', spec))
        out.append(('hier', {'classes': spec['classes'], 'root': ('list', ('cls', 'C0'), 'Sequence')}))
    # a scalar member next to a collection member: a block collection starts at the same character as its first item
    ws = {'name': 'Ws', 'kind': 'userstring'}
    for t in (('union', ['str', ('dict', 'str', 'int')]), ('union', [('dict', 'str', 'str'), 'str']), ('union', ['str', ('list', 'str')]),
              ('union', [('cls', 'Ws'), ('dict', ('cls', 'Ws'), ('cls', 'Ws'))]), ('union', ['int', ('list', ('union', ['int', ('list', 'int')]))]),
              ('union', ['str', ('dict', 'str', ('union', ['str', ('dict', 'str', 'str')]))])):
        out.append(('scalar-or-collection', {'classes': catalog.BASE + [ws], 'root': t}))
        out.append(('scalar-or-collection', {'classes': catalog.BASE + [ws, {'name': 'K', 'params': [('u', t), ('v', 'int', 3)]}],
                                             'root': ('cls', 'K')}))
        out.append(('scalar-or-collection', {'classes': catalog.BASE + [ws], 'root': ('list', t)}))
    # exactly one registered class (any "only one class" short-cut shows when unrelated classes are added)
    out.append(('single', {'classes': [{'name': 'K', 'params': [('x', 'int'), ('y', 'str', 'd')]}], 'root': ('cls', 'K')}))
    out.append(('single', {'classes': [{'name': 'K', 'params': [('x', 'int'), ('a_b', 'int', 0)], 'extra': True}], 'root': ('cls', 'K')}))
    out.append(('single', {'classes': [{'name': 'K', 'params': [('x', 'int')], 'abstract': 'abc'}], 'root': ('cls', 'K')}))
    out.append(('single', {'classes': [{'name': 'K', 'params': [('x', 'int')]}], 'root': ('list', ('opt', ('cls', 'K')))}))
    out.append(('single', {'classes': [{'name': 'W', 'kind': 'userstring'}], 'root': ('dict', ('cls', 'W'), 'int')}))
    out.append(('single', {'classes': [{'name': 'En', 'kind': 'enum', 'members': ['a', 'true']}], 'root': ('list', ('cls', 'En'))}))
    spec = catalog.hierarchy('fork2', ['req', 'req'])
    spec['classes'].append({'name': 'H', 'params': [('c', ('cls', 'C0')), ('l', ('list', ('cls', 'C1')), None),
                                                    ('d', ('dict', 'str', ('list', 'int')), None)], 'extra': True})
    spec['root'] = ('cls', 'H')
    out.append(('hier', spec))
    return out


_CAT = {}


def cat(tier):
    if tier not in _CAT:
        c = catalog.all_load_models(tier)
        if tier == 'quick':
            c = c[::3] + [m for i, m in enumerate(c) if i % 3 and m[0] in ('season', 'shorthand', 'element-order', 'dashed')]
        _CAT[tier] = c + more_models()
    return _CAT[tier]


def units(tier):
    return list(range(len(cat(tier)))) + [('escapes', i) for i in range(len(ESCAPE_ROOTS))]


# ---------------------------------------------------------------- one document, the ways JSON and YAML spell a character

ASTRAL = '\U0001F600'
ESC_CLASSES = [{'name': 'Ea', 'kind': 'enum', 'members': ['a' + ASTRAL, 'b']}, {'name': 'Sa', 'kind': 'userstring'},
               {'name': 'Ya', 'kind': 'ystring'}, {'name': 'Ta', 'kind': 'strsub'},
               {'name': 'Ka', 'params': [('p', 'path'), ('s', 'str'), ('w', ('cls', 'Sa')), ('e', ('cls', 'Ea')), ('d', ('dict', 'str', 'int')),
                                         ('ds', ('dict', ('cls', 'Sa'), 'int')), ('u', 'any')], 'extra': True},
               {'name': 'Kh', 'params': [('s', 'str'), ('e', ('cls', 'Ea'))], 'hooks': {'savorize': [('value_roundtrip', 's'), ('attr_get_value', 'e')]}}]
ESC_DOC = ('p: "x@/y"\ns: "@"\nw: "w@"\ne: "a@"\nd: {"k@": 1}\nds: {"q@": 2}\nu: ["@", {"@": "@ @"}]\n"zz@": "@"\n')
ESCAPE_ROOTS = [(('cls', 'Ka'), ESC_DOC), ('path', '"x@/y"\n'), (('cls', 'Sa'), '"w@"\n'), (('cls', 'Ya'), '"w@"\n'), (('cls', 'Ta'), '"@w"\n'),
                (('cls', 'Ea'), '"a@"\n'), (('list', ('cls', 'Ea')), '["a@", "b", "a@"]\n'), (('dict', ('cls', 'Sa'), 'str'), '{"q@": "@"}\n'),
                (('dict', ('cls', 'Ya'), ('cls', 'Ea')), '{"q@": "a@"}\n'), (('dict', 'str', 'path'), '{"@": "@"}\n'), ('any', '{"@": ["@"]}\n'),
                (('cls', 'Kh'), '{"s": "@", "e": "a@"}\n'), (('union', ['int', ('cls', 'Sa')]), '"@"\n'), ('str', '"@@"\n')]
SPELLINGS = [('raw', ASTRAL), ('json-pair', '\\ud83d\\ude00'), ('json-pair-upper', '\\uD83D\\uDE00'), ('yaml-U', '\\U0001F600'),
             ('json-pair-mixed', '\\uD83d\\uDe00')]


def escapes_unit(i, res):
    """the same double-quoted document with one character beyond the BMP spelt raw, as the JSON surrogate pair (what
    json.dumps and dumps_json write) and as YAML's \\U escape, at every kind of string position: the node tags and values
    are the same, so is the outcome"""
    root, doc = ESCAPE_ROOTS[i]
    spec = {'classes': catalog.BASE + ESC_CLASSES, 'root': root}
    case = loadcase.Case(spec)
    base_text = doc.replace('@', ASTRAL)
    o0 = case.impl(base_text)
    res.states += 1
    res.traces += 1
    res.hist['base-' + ('ok' if o0[0] == 'ok' else 'fail')] += 1
    if o0[0] != 'ok':
        raise core.HarnessError('escape unit: the raw document %r is not accepted for %s: %s' % (base_text, root, describe(o0)))
    for name, sp in SPELLINGS[1:]:
        text = doc.replace('@', sp)
        res.states += 1
        res.nontrivial += 1
        check_pair(res, spec, o0, case.impl(text), 'style', 'character ' + name, base_text, text)
        # and with the escaped character far into the text (a reader that works on blocks)
        pad = '# ' + 'x' * 78 + '\n'
        for k in (51, 103):
            check_pair(res, spec, o0, case.impl(pad * k + text), 'style', 'character %s after %d comment lines' % (name, k), base_text, pad * k + text)


# ---------------------------------------------------------------- transformations of the document

def mentions_class(t):
    t = T(t)
    if isinstance(t, str):
        return False
    if t[0] == 'cls':
        return True
    if t[0] == 'union':
        return any(mentions_class(x) for x in t[1])
    return False


def class_mapping_paths(spec, tree):
    """paths of mapping nodes at positions whose declared type admits a class (type-directed walk)"""
    cl = docs.classes_of(spec)
    out = []

    def subclasses(name):
        r = [name]
        for d in spec['classes']:
            if name in d.get('bases', []):
                for x in subclasses(d['name']):
                    if x not in r:
                        r.append(x)
        return r

    def walk(t, node, path, depth=0):
        t = T(t)
        if depth > 12 or isinstance(t, str):
            return
        k = t[0]
        if k == 'opt':
            walk(t[1], node, path, depth)
        elif k == 'union':
            for x in t[1]:
                walk(x, node, path, depth)
        elif k == 'list':
            if node[0] == 'q':
                for i, it in enumerate(node[2]):
                    walk(t[1], it, path + (i,), depth + 1)
        elif k == 'dict':
            if node[0] == 'm':
                for i, (_, v) in enumerate(node[2]):
                    walk(t[2], v, path + ((i, 1),), depth + 1)
        elif k == 'cls':
            if node[0] != 'm':
                return
            plain = [n for n in subclasses(t[1]) if cl[n].get('kind', 'plain') == 'plain']
            if not plain:
                return
            if path not in out:
                out.append(path)
            for n in plain:
                # construction looks parameters up by their exact name; a dashed key is the parameter only
                # when a savorize of the class renames it first
                dashed = any(op[0] == 'dashes_to_unders' for m in plain
                             for op in (cl[m].get('hooks') or {}).get('savorize', []))
                for p in cl[n].get('params', []):
                    for i, (kk, vv) in enumerate(node[2]):
                        if kk[0] == 's' and (kk[2] == p[0] or (dashed and kk[2] == p[0].replace('_', '-'))):
                            walk(p[1], vv, path + ((i, 1),), depth + 1)
    walk(spec['root'], tree, ())
    return out


def key_orders(n):
    idx = list(range(n))
    if n <= 4:
        return [p for p in itertools.permutations(idx) if list(p) != idx]
    out = [tuple(idx[i:] + idx[:i]) for i in range(1, n)]
    out.append(tuple(reversed(idx)))
    return out


def permuted(spec, tree):
    """(path, order, tree') for every non-identity key order of every class mapping without duplicate keys"""
    for path in class_mapping_paths(spec, tree):
        node = docs.get_at(tree, path)
        keys = [k for k, _ in node[2]]
        if len(keys) < 2 or len(set(keys)) != len(keys):
            continue
        for order in key_orders(len(keys)):
            yield path, order, docs.replace(tree, path, ('m', node[1], tuple(node[2][i] for i in order)))


# ---------------------------------------------------------------- transformations of the model

def generic_positions(spec):
    """(class index or None for the root, parameter index, path inside the type expression)"""
    out = []

    def walk(t, where, path):
        t = T(t)
        if isinstance(t, str):
            return
        if t[0] in ('list', 'dict'):
            out.append(where + (path,))
        if t[0] == 'list':
            walk(t[1], where, path + (1,))
        elif t[0] == 'dict':
            walk(t[2], where, path + (2,))
        elif t[0] == 'opt':
            walk(t[1], where, path + (1,))
        elif t[0] == 'union':
            for i, x in enumerate(t[1]):
                walk(x, where, path + (1, i))
    walk(spec['root'], (None, None), ())
    for ci, c in enumerate(spec['classes']):
        for pi, p in enumerate(c.get('params', [])):
            walk(p[1], (ci, pi), ())
    return out


def _set_variant(t, path, variant):
    """path = tuple indices into the (normalised) type expression; Union members are t[1][i]"""
    t = T(t)
    if not path:
        if t[0] == 'list':
            return ('list', t[1], ['List', 'Sequence', 'MutableSequence'][variant])
        return ('dict', t[1], t[2], ['Dict', 'Mapping', 'MutableMapping'][variant])
    lst = list(t)
    lst[path[0]] = _set_variant(t[path[0]], path[1:], variant)
    return tuple(lst)


def _cur(t, path):
    t = T(t)
    for h in path:
        t = t[h]
    if t[0] == 'list':
        return ['List', 'Sequence', 'MutableSequence'].index(t[2] if len(t) > 2 else 'List')
    return ['Dict', 'Mapping', 'MutableMapping'].index(t[3] if len(t) > 3 else 'Dict')


def with_variants(spec, positions, assignment):
    classes = [dict(c) for c in spec['classes']]
    root = T(spec['root'])
    for (ci, pi, path), v in zip(positions, assignment):
        if ci is None:
            root = _set_variant(root, path, v)
        else:
            params = [tuple(p) for p in classes[ci]['params']]
            p = params[pi]
            params[pi] = (p[0], _set_variant(p[1], path, v)) + tuple(p[2:])
            classes[ci]['params'] = params
    return {'classes': classes, 'root': root}


def generic_assignments(spec):
    pos = generic_positions(spec)
    if not pos:
        return
    flat = []
    for ci, pi, path in pos:
        t = spec['root'] if ci is None else spec['classes'][ci]['params'][pi][1]
        # path here addresses tuple indices; unions use (1, i)
        flat.append(_cur(t, path))
    if len(pos) <= 3:
        combos = list(itertools.product(range(3), repeat=len(pos)))
    else:
        combos = [tuple([1] * len(pos)), tuple([2] * len(pos))]
        for i in range(len(pos)):
            for v in range(3):
                a = list(flat)
                a[i] = v
                combos.append(tuple(a))
    seen = set()
    for a in combos:
        if a == tuple(flat) or a in seen:
            continue
        seen.add(a)
        yield a, with_variants(spec, pos, a)


def add_buf(t):
    """bool_union_fix added to every Union/Optional containing bool; returns (type, changed)"""
    t = T(t)
    if isinstance(t, str):
        return t, False
    k = t[0]
    if k == 'opt':
        if t[1] == 'bool':
            return ('union', ('bool', 'buf', 'none')), True
        inner, ch = add_buf(t[1])
        return ('opt', inner), ch
    if k == 'union':
        members = []
        ch = False
        for x in t[1]:
            y, c = add_buf(x)
            members.append(y)
            ch = ch or c
        if 'bool' in members and 'buf' not in members:
            i = members.index('bool')
            members.insert(i + 1, 'buf')
            ch = True
        return ('union', tuple(members)), ch
    if k == 'list':
        inner, ch = add_buf(t[1])
        return ('list', inner) + tuple(t[2:]), ch
    if k == 'dict':
        inner, ch = add_buf(t[2])
        return ('dict', t[1], inner) + tuple(t[3:]), ch
    return t, False


def with_buf(spec):
    classes = []
    changed = False
    for c in spec['classes']:
        c = dict(c)
        if c.get('params'):
            ps = []
            for p in c['params']:
                nt, ch = add_buf(p[1])
                changed = changed or ch
                ps.append((p[0], nt) + tuple(p[2:]))
            c['params'] = ps
        classes.append(c)
    root, ch = add_buf(spec['root'])
    if not (changed or ch):
        return None
    return {'classes': classes, 'root': root}


# ---------------------------------------------------------------- outcomes

def eqv_u(a, b, unordered_extra):
    """structural equality across separately built copies of a model: generated classes, enums and
    string-likes are compared by class name; nan-aware, order-sensitive except (optionally) _yatiml_extra"""
    import enum
    import math
    ta, tb = type(a), type(b)
    if hasattr(a, '_kw') or hasattr(b, '_kw'):
        if not (hasattr(a, '_kw') and hasattr(b, '_kw')) or ta.__name__ != tb.__name__:
            return False
        ka, kb = a._kw, b._kw
        if list(ka) != list(kb):
            return False
        for k in ka:
            if unordered_extra and k == '_yatiml_extra' and isinstance(ka[k], dict) and isinstance(kb[k], dict):
                if set(ka[k]) != set(kb[k]) or not all(eqv_u(ka[k][x], kb[k][x], False) for x in ka[k]):
                    return False
            elif not eqv_u(ka[k], kb[k], unordered_extra):
                return False
        return True
    if isinstance(a, enum.Enum) or isinstance(b, enum.Enum):
        return isinstance(a, enum.Enum) and isinstance(b, enum.Enum) and ta.__name__ == tb.__name__ and a.name == b.name
    if isinstance(a, dict) and isinstance(b, dict):
        if unordered_extra:
            # under key permutation a permuted mapping may have been loaded as a plain dict (a Union member, Any):
            # its order follows the document, which is C02's business, so dicts are compared as unordered here
            if len(a) != len(b):
                return False
            rest = list(b.items())
            for ka_, va_ in a.items():
                for i, (kb_, vb_) in enumerate(rest):
                    if eqv_u(ka_, kb_, True) and eqv_u(va_, vb_, True):
                        del rest[i]
                        break
                else:
                    return False
            return True
        return len(a) == len(b) and all(eqv_u(x, y, unordered_extra) and eqv_u(a[x], b[y], unordered_extra)
                                        for x, y in zip(a.keys(), b.keys()))
    if ta.__module__ != 'builtins' and tb.__module__ != 'builtins' and ta is not tb:
        # string-like classes of two builds of the model, paths, dates
        if ta.__name__ != tb.__name__:
            return False
        try:
            return str(a) == str(b)
        except Exception:     # noqa
            return False
    if ta is not tb:
        return False
    if isinstance(a, float):
        return (a == b and math.copysign(1, a) == math.copysign(1, b)) or (a != a and b != b)
    if isinstance(a, list):
        return len(a) == len(b) and all(eqv_u(x, y, unordered_extra) for x, y in zip(a, b))
    return a == b


def same(o1, o2, unordered_extra=False):
    ok1, ok2 = o1[0] == 'ok', o2[0] == 'ok'
    if ok1 != ok2:
        return False
    if ok1:
        return eqv_u(o1[1], o2[1], unordered_extra)
    return True


def describe(o):
    if o[0] == 'ok':
        return 'ok:' + show(o[1])[:160]
    if o[0] == 'exc':
        return 'exc:%s: %s' % (type(o[1]).__name__, str(o[1])[:120])
    if o[0] == 'yamlerr':
        return 'yamlerr:' + o[1]
    return 'rej:' + o[1].replace('\n', ' / ')[:160]


class Variants:
    """model-level partners of one spec, built once per unit"""

    def __init__(self, spec):
        self.spec = spec
        self.base = loadcase.Case(spec)
        self.partners = []      # (kind, label, case, spec')
        xb = models.build(EXTRA_SPEC)
        self.partners.append(('extra', 'appended', loadcase.Case(spec, extra_classes=xb.registered), spec))
        c2 = loadcase.Case(spec)
        c2.load = yatiml.load_function(c2.b.root, *(list(xb.registered) + list(c2.b.registered)))
        self.partners.append(('extra', 'prepended', c2, spec))
        for a, sp in generic_assignments(spec):
            self.partners.append(('generic', 'variants=%s' % (a,), loadcase.Case(sp), sp))
        sp = with_buf(spec)
        if sp is not None:
            self.partners.append(('buf', 'bool_union_fix added', loadcase.Case(sp), sp))


def check_pair(res, spec, o0, o1, kind, label, text0, text1, spec1=None, unordered_extra=False):
    res.traces += 1
    res.transitions += 1
    if same(o0, o1, unordered_extra):
        res.hist['pair-' + kind + (':ok' if o0[0] == 'ok' else ':fail')] += 1
        return True
    key = 'C13:%s:%s->%s' % (kind, 'ok' if o0[0] == 'ok' else 'fail', 'ok' if o1[0] == 'ok' else 'fail')
    pl = loadcase.payload(spec, text0, kind=kind, label=label, text1=text1)
    if spec1 is not None and spec1 is not spec:
        pl['spec1'] = spec1
        pl['model1'] = models.source_of(spec1)
    res.violation(key, '%s (%s): base %r gives %s; partner %r gives %s' % (
        kind, label, text0, describe(o0), text1 if text1 != text0 else '(same text, transformed model)', describe(o1)), pl)
    return False


def run_unit(unit, tier):
    res = core.Result()
    if isinstance(unit, tuple):
        escapes_unit(unit[1], res)
        return res
    fam, spec = cat(tier)[unit]
    V = Variants(spec)
    case = V.base
    names = [c.__name__ for c in case.b.registered if c.__name__ in ('K', 'In', 'C1')]
    # tags naming the classes that the 'extra' partners register in addition: unknown to the base, known to the partner
    tags = ['!' + n for n in names] + ['!Unknown', '!Zen', '!Zunrel']
    ds = loadcase.document_set(spec, case, tier, tags=tags, n_mut=4 if tier == 'quick' else 12,
                               tiny_n=2 if tier == 'quick' else 3)
    res.states += 1
    for kind, site, tree in ds:
        text, back = case.R.checked(tree)
        if text is None:
            res.hist['render-mismatch'] += 1
            continue
        res.states += 1
        o0 = case.impl(text)
        res.traces += 1
        res.hist['base-' + ('ok' if o0[0] == 'ok' else 'fail')] += 1
        changed = 0
        # --- key permutations
        for path, order, t2 in permuted(spec, tree):
            text2, back2 = case.R.checked(t2)
            if text2 is None:
                res.hist['render-mismatch'] += 1
                continue
            check_pair(res, spec, o0, case.impl(text2), 'perm', 'keys at %s in order %s' % (path, order), text, text2,
                       unordered_extra=True)
            changed += 1
        # --- renderings
        for st in (STYLES if tier == 'thorough' else [x for x in STYLES if x not in ('folded', 'sq', 'narrow')]):
            text2, back2 = case.R.checked(tree, st)
            if text2 is None:
                res.hist['style-not-applicable:' + st] += 1
                continue
            if text2 == text:
                res.hist['style-same-text:' + st] += 1
                continue
            check_pair(res, spec, o0, case.impl(text2), 'style', st, text, text2)
            changed += 1
        # --- model partners
        for pk, label, pc, sp in V.partners:
            check_pair(res, spec, o0, pc.impl(text), pk, label, text, text, spec1=sp)
            changed += 1
        if o0[0] == 'ok' or (changed and kind != 'tiny'):
            res.nontrivial += 1
        if o0[0] == 'ok' and kind == 'valid':
            res.sample({'model': models.source_of(spec)[-3:], 'text': text,
                        'partners': changed}, 2)
    res.hist['models'] += 1
    res.hist['family:' + fam] += 1
    res.extra['partners_per_model'] = {fam: len(V.partners)}
    return res


def finish(total, tier):
    for k in ('pair-perm:ok', 'pair-perm:fail', 'pair-style:ok', 'pair-style:fail', 'pair-extra:ok', 'pair-extra:fail', 'pair-generic:ok',
              'pair-generic:fail', 'pair-buf:ok', 'pair-buf:fail'):
        if total.hist[k] < 50:
            raise core.Vacuous('transformation class %s exercised only %d times' % (k, total.hist[k]))


def replay(payload):
    spec = payload['spec']
    case = loadcase.Case(spec)
    o0 = case.impl(payload['text'])
    kind = payload['kind']
    if kind in ('perm', 'style'):
        o1 = case.impl(payload['text1'])
    elif kind == 'extra':
        xb = models.build(EXTRA_SPEC)
        if payload['label'] == 'appended':
            c1 = loadcase.Case(spec, extra_classes=xb.registered)
        else:
            c1 = loadcase.Case(spec)
            c1.load = yatiml.load_function(c1.b.root, *(list(xb.registered) + list(c1.b.registered)))
        o1 = c1.impl(payload['text'])
    else:
        o1 = loadcase.Case(payload['spec1']).impl(payload['text'])
    viol = not same(o0, o1, unordered_extra=(kind == 'perm'))
    return viol, 'base: %s | partner (%s %s): %s' % (describe(o0), kind, payload.get('label'), describe(o1))
