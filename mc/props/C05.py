"""C05 - loading what was dumped gives back an equal object (YAML round trip).

Strings: every string up to a length bound over a YAML-syntax alphabet and over a number/
boolean look-alike alphabet, plus a fixed list, at 13 positions (top level, list item, dict
key/value, class attribute, extra attribute, Union member, Any, string-like classes ...).
Structured families: floats, ints, dates, paths, enums, string-likes, nested classes,
extras, hierarchies, default-value sweetening for every (default, value) pair, four
sweeten/savorize inverse pairs, and every way of referencing one sub-object twice.
Oracle: load(dumps(v)) is structurally equal to v (nan-aware, class-exact, order-sensitive).
"""
import itertools

import yaml
import yatiml

from mc import core, dumpcat, loadcase, models, values
from mc.loadcase import eqv, show

PROPERTY = 'C05'
RULE = ('choice tree: position/model x value; each leaf is dumped with the real dumps function and the text is loaded '
        'with the real load function of the same model; non-trivial = strings that as plain scalars would resolve to another type, '
        'are empty, have outer blanks or contain YAML syntax, non-printable or non-ASCII characters, plus all structured values')
ASSUMPTIONS = [
    'values are unambiguous under the documented recognition rules (the catalogue avoids ambiguous unions)',
    'strings are valid Unicode without lone surrogates (YAML cannot carry them)',
]


def BOUNDS(tier):
    return {'yaml_alphabet': values.YAML_ALPHA, 'yaml_maxlen': 2 if tier == 'quick' else 3,
            'num_alphabet': values.NUM_ALPHA, 'num_maxlen': 3 if tier == 'quick' else 4,
            'fixed_strings': len(dumpcat.fixed_strings()), 'number_shapes': len(values.number_shapes()), 'positions': list(dumpcat.STRING_POSITIONS),
            'structured_families': len(dumpcat.structured_families())}


def units(tier):
    b = BOUNDS(tier)
    out = []
    for pos in dumpcat.STRING_POSITIONS:
        out.append(('str', pos, 'fixed', ''))
        for a in values.YAML_ALPHA:
            out.append(('str', pos, 'yaml', a))
        for a in values.NUM_ALPHA:
            out.append(('str', pos, 'num', a))
        out.append(('str', pos, 'short', ''))
        out.append(('str', pos, 'shapes', ''))
    for i in range(len(dumpcat.structured_families())):
        out.append(('fam', i))
    return out


def roundtrip(case, dumps, v, res, fam, desc):
    res.traces += 1
    pay = {'fam': fam, 'value': desc}
    try:
        text = dumps(v)
    except Exception as e:     # noqa
        res.violation('C05:dump-raises:%s:%s' % (fam, type(e).__name__), 'dumps(%s) raised %s: %s' % (show(v), type(e).__name__, e), pay)
        return None
    o = case.impl(text)
    if o[0] == 'ok' and eqv(o[1], v):
        res.hist['roundtrip-ok'] += 1
        return text
    got = show(o[1]) if o[0] == 'ok' else ('%s: %s' % (o[0], str(o[1]).replace('\n', ' / ')[:160]))
    if o[0] == 'ok':
        cls = 'differs'
    elif o[0] == 'exc':
        cls = 'load-raises-' + type(o[1]).__name__
    else:
        cls = 'load-' + o[0]
    res.violation('C05:%s:%s' % (fam, cls), 'value %s dumps as %r which loads as %s' % (show(v), text, got), pay)
    return text


def needs_care(case, s):
    """a string the dumper cannot write as a plain scalar and get back: it resolves to another type, is empty, has
    leading/trailing blanks, or contains YAML syntax / non-printable / non-ASCII characters"""
    if s == '' or s != s.strip():
        return True
    if case.inst.resolve(yaml.ScalarNode, s, (True, False)) != 'tag:yaml.org,2002:str':
        return True
    return any(c in ":#[]{},&*!|>'\"%@`?-\n\t\\" or not c.isprintable() or ord(c) > 126 for c in s)


_CASES = {}


def str_case(pos):
    if pos not in _CASES:
        spec = dumpcat.string_spec(pos)
        case = loadcase.Case(spec)
        dumps = yatiml.dumps_function(*case.b.registered)
        _CASES[pos] = (case, dumps)
    return _CASES[pos]


def run_unit(unit, tier):
    res = core.Result()
    b = BOUNDS(tier)
    if unit[0] == 'str':
        _, pos, alpha, first = unit
        case, dumps = str_case(pos)
        mk = dumpcat.STRING_POSITIONS[pos][2]
        if alpha == 'fixed':
            strs = dumpcat.fixed_strings()
        elif alpha == 'short':
            strs = ['']
        elif alpha == 'shapes':
            strs = values.number_shapes()
        else:
            A = values.YAML_ALPHA if alpha == 'yaml' else values.NUM_ALPHA
            L = b['yaml_maxlen'] if alpha == 'yaml' else b['num_maxlen']
            strs = (first + s for s in values.strings(A, L - 1))
        for s in strs:
            res.states += 1
            res.transitions += 1
            try:
                v = mk(case.b, s)
            except Exception:     # noqa
                res.hist['value-not-constructible'] += 1
                continue
            text = roundtrip(case, dumps, v, res, 'str@' + pos, {'position': pos, 'string': s})
            if text is not None and needs_care(case, s):
                res.nontrivial += 1
                if len(s) > 1:
                    res.sample({'position': pos, 'string': s, 'text': text}, 1)
        return res
    name, spec, maker = dumpcat.structured_families()[unit[1]]
    case = loadcase.Case(spec)
    dumps = yatiml.dumps_function(*case.b.registered)
    for i, v in enumerate(maker(case.b)):
        res.states += 1
        res.transitions += 1
        res.nontrivial += 1
        text = roundtrip(case, dumps, v, res, name.split(':')[0], {'family': name, 'index': i})
        if text is not None:
            res.sample({'family': name, 'value': show(v), 'text': text}, 1)
    res.hist['families'] += 1
    return res


def finish(total, tier):
    if total.hist['roundtrip-ok'] < 5000:
        raise core.Vacuous('only %d round trips succeeded' % total.hist['roundtrip-ok'])


def replay(payload):
    res = core.Result()
    d = payload['value']
    if 'position' in d:
        case, dumps = str_case(d['position'])
        v = dumpcat.STRING_POSITIONS[d['position']][2](case.b, d['string'])
        roundtrip(case, dumps, v, res, payload['fam'], d)
    else:
        for name, spec, maker in dumpcat.structured_families():
            if name == d['family']:
                case = loadcase.Case(spec)
                dumps = yatiml.dumps_function(*case.b.registered)
                v = maker(case.b)[d['index']]
                roundtrip(case, dumps, v, res, payload['fam'], d)
    if res.violations:
        return True, res.violations[0]['what']
    return False, 'round trip gives an equal value'
