"""C07 - JSON dumps are valid JSON with the same data under every formatting option.

(a) the JSON emitter as a pushdown transducer: breadth-first search over all well-formed
    event sequences (nesting <= 4, length <= 7/9); every transition replays its history
    into the real Dumper.emit and compares the text increment with a reference transducer;
(b) end to end: all plain-data trees with <= 5/6 nodes x indent in {None, 0..8} x
    ensure_ascii; all strings <= 2/3 over a 14-character JSON-hostile alphabet as value and
    as key; the tree-shaped class-model values of the dump catalogue.
Oracle: strict RFC 8259 recogniser, JSON projection, ASCII/whitespace rules, re-load.
"""
import collections
import datetime
import io
import itertools
import json
import math
import pathlib
import re

import yaml
import yatiml
from yaml.events import (DocumentEndEvent, DocumentStartEvent, MappingEndEvent, MappingStartEvent, ScalarEvent,
                         SequenceEndEvent, SequenceStartEvent, StreamEndEvent, StreamStartEvent)

from mc import core, dumpcat, loadcase, models, values
from mc.loadcase import eqv, show
from mc.props import C06

PROPERTY = 'C07'
P = models.P
RULE = ('(a) explicit-state BFS over emitter states (stack of container states), transitions = YAML events, each replayed '
        'on the real Dumper.emit and compared with a reference transducer; (b) choice tree: value x indent x ensure_ascii, '
        'each leaf dumped with the real dumps_json function and validated; non-trivial = values with at least one '
        'container or a string needing escapes')
ASSUMPTIONS = [
    'tree-shaped values: no object other than str/int/float/bool/None occurs twice (PyYAML would emit an alias)',
    'finite floats and string keys, as the property states; dates are compared as ISO strings with T or blank and are '
    'excluded from the re-load clause (JSON has no timestamp scalar)',
]
INDENTS = [None, 0, 1, 2, 3, 4, 5, 6, 7, 8]
JSON_ALPHA = ['a', '"', '\\', '/', '\n', '\t', '\x00', '\x1f', '\x7f', '\xe9', ' ', '\ud800', '\U0001F600', ' ']


def BOUNDS(tier):
    return {'emitter_nesting': 4, 'emitter_events': 7 if tier == 'quick' else 9,
            'tree_nodes_all_indents': 4 if tier == 'quick' else 6, 'tree_nodes_two_indents': 5 if tier == 'quick' else 6,
            'indents': INDENTS, 'string_maxlen': 2 if tier == 'quick' else 3, 'string_alphabet': [repr(c) for c in JSON_ALPHA]}


# ---------------------------------------------------------------- strict JSON recogniser (RFC 8259)

_WS = ' \t\n\r'
_NUM = re.compile(r'-?(?:0|[1-9][0-9]*)(?:\.[0-9]+)?(?:[eE][-+]?[0-9]+)?')


class NotJson(Exception):
    pass


def parse_json(text):
    """strict RFC 8259 parser -> value (objects as ordered pairs lists to keep duplicates/order)"""
    pos = 0
    n = len(text)

    def ws():
        nonlocal pos
        while pos < n and text[pos] in _WS:
            pos += 1

    def value():
        nonlocal pos
        ws()
        if pos >= n:
            raise NotJson('unexpected end')
        c = text[pos]
        if c == '{':
            pos += 1
            out = collections.OrderedDict()
            ws()
            if pos < n and text[pos] == '}':
                pos += 1
                return out
            while True:
                ws()
                if pos >= n or text[pos] != '"':
                    raise NotJson('object key must be a string at %d' % pos)
                k = string()
                ws()
                if pos >= n or text[pos] != ':':
                    raise NotJson('expected : at %d' % pos)
                pos += 1
                v = value()
                if k in out:
                    raise NotJson('duplicate key %r' % k)
                out[k] = v
                ws()
                if pos < n and text[pos] == ',':
                    pos += 1
                    continue
                if pos < n and text[pos] == '}':
                    pos += 1
                    return out
                raise NotJson('expected , or } at %d' % pos)
        if c == '[':
            pos += 1
            out = []
            ws()
            if pos < n and text[pos] == ']':
                pos += 1
                return out
            while True:
                out.append(value())
                ws()
                if pos < n and text[pos] == ',':
                    pos += 1
                    continue
                if pos < n and text[pos] == ']':
                    pos += 1
                    return out
                raise NotJson('expected , or ] at %d' % pos)
        if c == '"':
            return string()
        for lit, val in (('true', True), ('false', False), ('null', None)):
            if text.startswith(lit, pos):
                pos += len(lit)
                return val
        m = _NUM.match(text, pos)
        if not m:
            raise NotJson('unexpected %r at %d' % (c, pos))
        pos = m.end()
        s = m.group(0)
        return float(s) if ('.' in s or 'e' in s or 'E' in s) else int(s)

    def string():
        nonlocal pos
        pos += 1
        out = []
        while True:
            if pos >= n:
                raise NotJson('unterminated string')
            c = text[pos]
            if c == '"':
                pos += 1
                return ''.join(out)
            if ord(c) < 0x20:
                raise NotJson('control character in string at %d' % pos)
            if c == '\\':
                if pos + 1 >= n:
                    raise NotJson('bad escape')
                e = text[pos + 1]
                if e in '"\\/':
                    out.append(e)
                    pos += 2
                elif e in 'bfnrt':
                    out.append({'b': '\b', 'f': '\f', 'n': '\n', 'r': '\r', 't': '\t'}[e])
                    pos += 2
                elif e == 'u':
                    h = text[pos + 2:pos + 6]
                    if len(h) != 4 or any(ch not in '0123456789abcdefABCDEF' for ch in h):
                        raise NotJson('bad \\u escape')
                    cp = int(h, 16)
                    pos += 6
                    if 0xD800 <= cp < 0xDC00 and text[pos:pos + 2] == '\\u':
                        h2 = text[pos + 2:pos + 6]
                        if len(h2) == 4 and all(ch in '0123456789abcdefABCDEF' for ch in h2) and 0xDC00 <= int(h2, 16) < 0xE000:
                            cp = 0x10000 + ((cp - 0xD800) << 10) + (int(h2, 16) - 0xDC00)
                            pos += 6
                    out.append(chr(cp))
                else:
                    raise NotJson('bad escape \\%s' % e)
            else:
                out.append(c)
                pos += 1

    v = value()
    ws()
    if pos != n:
        raise NotJson('trailing data at %d' % pos)
    return v


def ws_outside_strings(text):
    instr = False
    i = 0
    while i < len(text):
        c = text[i]
        if instr:
            if c == '\\':
                i += 1
            elif c == '"':
                instr = False
        elif c == '"':
            instr = True
        elif c in _WS:
            return True
        i += 1
    return False


def json_projection(v):
    return values.to_json_projection(values.project(v))


def jeq(got, want):
    """parsed JSON vs JSON projection: order-sensitive; ints vs floats distinguished; dates with T or blank"""
    if isinstance(want, dict):
        return isinstance(got, dict) and list(got.keys()) == [str(k) for k in want.keys()] and all(jeq(got[str(k)], x) for k, x in want.items())
    if isinstance(want, list):
        return isinstance(got, list) and len(got) == len(want) and all(jeq(a, b) for a, b in zip(got, want))
    if isinstance(want, bool) or want is None:
        return got is want
    if isinstance(want, float):
        return isinstance(got, float) and got == want and math.copysign(1, got) == math.copysign(1, want)
    if isinstance(want, int):
        return type(got) is int and got == want
    if isinstance(want, str):
        return isinstance(got, str) and (got == want or got.replace('T', ' ') == want.replace('T', ' '))
    return False


# ---------------------------------------------------------------- (b) end to end

def has_dates(v):
    if isinstance(v, (datetime.date, datetime.datetime)):
        return True
    if isinstance(v, (list, tuple)):
        return any(has_dates(x) for x in v)
    if isinstance(v, dict):
        return any(has_dates(k) or has_dates(x) for k, x in v.items())
    kw = getattr(v, '_kw', None)
    if isinstance(kw, dict):
        return has_dates(kw) or has_dates(getattr(v, '_yatiml_extra', None) or {})
    return False


def all_strings(v, out):
    if isinstance(v, str) or isinstance(v, collections.UserString) or hasattr(v, '_v'):
        out.append(str(v))
    elif isinstance(v, pathlib.PurePath):
        out.append(str(v))
    elif isinstance(v, (list, tuple)):
        for x in v:
            all_strings(x, out)
    elif isinstance(v, dict):
        for k, x in v.items():
            all_strings(k, out)
            all_strings(x, out)
    elif isinstance(getattr(v, '_kw', None), dict):
        all_strings(v._kw, out)
    return out


def printable_bmp(s):
    # the statement promises the reload for printable BMP characters; characters beyond the BMP (written as a surrogate
    # pair of \u escapes) are held to it as well - only lone surrogates and non-printable characters are left out
    return all(c.isprintable() and not (0xD800 <= ord(c) < 0xE000) for c in s)


def check_json(dj, v, indent, ea, res, fam, desc, load=None):
    res.traces += 1
    pay = {'fam': fam, 'value': desc, 'indent': indent, 'ensure_ascii': ea}
    opts = 'indent=%r, ensure_ascii=%r' % (indent, ea)
    try:
        text = dj(v, indent=indent, ensure_ascii=ea)
    except Exception as e:     # noqa
        res.violation('C07:dump-raises:%s:%s' % (fam, type(e).__name__), 'dumps_json(%s, %s) raised %s: %s' % (
            show(v), opts, type(e).__name__, e), pay)
        return None
    try:
        got = parse_json(text)
        json.loads(text, parse_constant=_reject)
    except (NotJson, ValueError) as e:
        res.violation('C07:invalid-json:%s' % fam, 'dumps_json(%s, %s) = %r is not strict JSON: %s' % (show(v), opts, text, e), pay)
        return text
    want = json_projection(v)
    if not jeq(got, want):
        res.violation('C07:content:%s' % fam, 'dumps_json(%s, %s) = %r reads as %s, the JSON projection is %s' % (
            show(v), opts, text, show(got), show(want)), pay)
        return text
    if ea and not text.isascii():
        res.violation('C07:not-ascii:%s' % fam, 'dumps_json(%s, %s) = %r is not ASCII-only' % (show(v), opts, text), pay)
    if indent is None and ws_outside_strings(text):
        res.violation('C07:whitespace:%s' % fam, 'dumps_json(%s, %s) = %r has white space outside strings' % (show(v), opts, text), pay)
    if not ea:
        # every occurrence of a non-ASCII character (in values AND in keys) must be in the text unescaped
        want_c = collections.Counter(c for s in all_strings(v, []) for c in s if ord(c) > 0x7f)
        for c, n in want_c.items():
            if text.count(c) < n:
                res.violation('C07:escaped-with-ensure_ascii-off:%s' % fam, 'dumps_json(%s, %s) = %r escapes %r (%d of %d occurrences literal)' % (
                    show(v), opts, text, c, text.count(c), n), pay)
                break
    if load is not None and not has_dates(v) and all(printable_bmp(s) for s in all_strings(v, [])):
        o = load.impl(text)
        if not (o[0] == 'ok' and eqv(o[1], v)):
            res.violation('C07:reload:%s' % fam, 'dumps_json(%s, %s) = %r loads back as %s' % (
                show(v), opts, text, show(o[1]) if o[0] == 'ok' else o[0] + ': ' + str(o[1])[:100]), pay)
        else:
            res.hist['reloaded-equal'] += 1
    res.hist['valid-json'] += 1
    return text


def _reject(c):
    raise ValueError('constant ' + c)


LEAVES = ['s', 1, 1.5, True, None, 'DATE', 'DATETIME', [], {}]


def fresh_leaf(x):
    if x == 'DATE':
        return datetime.date(2001, 1, 1)
    if x == 'DATETIME':
        return datetime.datetime(2001, 1, 1, 10, 0, 0)
    if isinstance(x, list):
        return []
    if isinstance(x, dict):
        return {}
    return x


def trees(n):
    """all plain-data trees with exactly n nodes (descriptors; fresh() builds the value)"""
    if n == 1:
        yield from LEAVES
        return
    for parts in _compositions(n - 1):
        for kids in itertools.product(*[list(trees(p)) for p in parts]):
            yield ('L',) + kids
            yield ('D',) + kids


def _compositions(n):
    if n == 0:
        yield ()
        return
    for first in range(1, n + 1):
        for rest in _compositions(n - first):
            yield (first,) + rest


def fresh(t):
    if isinstance(t, tuple):
        if t[0] == 'L':
            return [fresh(x) for x in t[1:]]
        return {'k%d' % i: fresh(x) for i, x in enumerate(t[1:])}
    return fresh_leaf(t)


# ---------------------------------------------------------------- (a) the emitter as a transducer

SCALARS = [('str', 'a'), ('int', '1'), ('float', '1.5'), ('bool', 'true'), ('null', 'null'), ('timestamp', '2001-01-01')]


def ref_scalar_text(tag, value):
    if tag in ('str', 'timestamp'):
        return json.dumps(value)
    if tag == 'null':
        return 'null'
    if tag == 'bool':
        return value.lower()
    return value


def transducer(stack, ev):
    """reference: (stack, event) -> (new stack, compact text increment)"""
    top = stack[-1] if stack else None
    if ev[0] in ('seq-end', 'map-end'):
        return stack[:-1], ']' if ev[0] == 'seq-end' else '}'
    sep = {'seq': ',', 'key': ',', 'value': ':'}.get(top, '')
    nxt = {'seq-first': 'seq', 'key-first': 'value', 'key': 'value', 'value': 'key', 'seq': 'seq'}.get(top)
    base = stack[:-1] + ((nxt,) if top is not None else ())
    if ev[0] == 'scalar':
        return base, sep + ref_scalar_text(ev[1], ev[2])
    if ev[0] == 'seq-start':
        return base + ('seq-first',), sep + '['
    return base + ('key-first',), sep + '{'


def enabled(stack, maxdepth):
    top = stack[-1] if stack else None
    evs = []
    if top in ('key-first', 'key'):
        evs.append(('scalar', 'str', 'a'))
        evs.append(('scalar', 'str', 'b c'))
        if top in ('key-first', 'key'):
            evs.append(('map-end',))
        return evs
    if top is None and stack == ():
        pass
    for tag, val in SCALARS:
        evs.append(('scalar', tag, val))
    if len(stack) < maxdepth:
        evs.append(('seq-start',))
        evs.append(('map-start',))
    if top in ('seq-first', 'seq'):
        evs.append(('seq-end',))
    return evs


def mk_event(ev):
    if ev[0] == 'scalar':
        return ScalarEvent(None, P + ev[1], (True, False), ev[2])
    if ev[0] == 'seq-start':
        return SequenceStartEvent(None, P + 'seq', True)
    if ev[0] == 'map-start':
        return MappingStartEvent(None, P + 'map', True)
    if ev[0] == 'seq-end':
        return SequenceEndEvent()
    return MappingEndEvent()


_DJ = None


def new_dumper(indent, allow_unicode=False):
    global _DJ
    if _DJ is None:
        _DJ = yatiml.dumps_json_function().dumper
    s = io.StringIO()
    d = _DJ(s, None, False, None, indent, None, allow_unicode, None, None, None, None, None, None, True)
    d.emit(StreamStartEvent())
    d.emit(DocumentStartEvent())
    return d, s


def strip_ws(text):
    out = []
    instr = False
    i = 0
    while i < len(text):
        c = text[i]
        if instr:
            out.append(c)
            if c == '\\':
                i += 1
                out.append(text[i])
            elif c == '"':
                instr = False
        elif c == '"':
            instr = True
            out.append(c)
        elif c not in _WS:
            out.append(c)
        i += 1
    return ''.join(out)


def run_emitter_bfs(res, maxlen, indent):
    """every event history up to maxlen, grouped by canonical emitter state"""
    seen = {(): ()}
    frontier = collections.deque([()])
    top_done = set()
    while frontier:
        st = frontier.popleft()
        hist = seen[st]
        res.states += 1
        if len(hist) >= maxlen:
            continue
        if st == () and hist:
            continue        # the document is complete
        for ev in enabled(st, 4):
            res.transitions += 1
            d, s = new_dumper(indent)
            for h in hist:
                d.emit(mk_event(h))
            before = s.getvalue()
            try:
                d.emit(mk_event(ev))
                inc = s.getvalue()[len(before):]
                exc = None
            except Exception as e:     # noqa
                exc, inc = e, None
            nst, want = transducer(st, ev)
            res.traces += 1
            res.nontrivial += 1
            ok = exc is None and (inc == want if indent is None else strip_ws(inc) == want)
            depth_attr = getattr(d, '_json_state', None)
            if ok and depth_attr is not None and len(depth_attr) - 1 != len(nst):
                ok = False
            if not ok:
                res.violation('C07:emitter:%s-after-%s' % (ev[0], st[-1] if st else 'top'),
                              'after events %s (state %s, indent=%r) event %s writes %r, the reference transducer writes %r' % (
                                  [e[0] if e[0] != 'scalar' else e[1] for e in hist], list(st), indent, ev, exc if exc is not None else inc, want),
                              {'kind': 'events', 'history': [list(h) for h in hist] + [list(ev)], 'indent': indent})
            if nst == ():
                # complete document: the whole text must be valid JSON
                try:
                    d.emit(DocumentEndEvent())
                    parse_json(s.getvalue())
                    res.hist['complete-documents'] += 1
                except Exception as e:     # noqa
                    res.violation('C07:emitter:document-invalid', 'events %s (indent=%r) give %r: %s' % (
                        [list(h) for h in hist] + [list(ev)], indent, s.getvalue(), e),
                        {'kind': 'events', 'history': [list(h) for h in hist] + [list(ev)], 'indent': indent})
            if nst not in seen:
                seen[nst] = hist + (ev,)
                frontier.append(nst)
    if len(res.samples) < 1:
        res.sample({'emitter_states': len(seen), 'longest_history': [list(e) for e in max(seen.values(), key=len)]})


# ---------------------------------------------------------------- driver

def class_families():
    """(name, spec, maker, reloadable): the C05 families round-trip by construction, the extra C06 ones
    (one-way sweeteners, _yatiml_attributes) are only checked for validity and content"""
    rt = {n for n, s, m in dumpcat.structured_families()}
    # JSON has no spelling for non-finite floats (outside the property's domain): the families whose sweeteners write
    # inf / nan themselves are left to C06
    return [(n, s, m, n in rt) for n, s, m in C06.families()
            if dumpcat.tree_shaped(n) and n != 'sweeten-writes-floats' and not n.endswith((':inf', ':nan'))]


def units(tier):
    b = BOUNDS(tier)
    out = [('emitter', ind) for ind in (None, 2, 0, 8)]
    for n in range(1, b['tree_nodes_two_indents'] + 1):
        for shard in range(8 if n >= 5 else 1):
            out.append(('trees', n, shard, 8 if n >= 5 else 1))
    for kpos in ('value', 'key'):
        for first in JSON_ALPHA:
            out.append(('strings', kpos, first))
    for i in range(len(class_families())):
        out.append(('fam', i))
    out.append(('longkeys',))
    return out


_TOP = None


def run_unit(unit, tier):
    global _TOP
    res = core.Result()
    b = BOUNDS(tier)
    if unit[0] == 'emitter':
        run_emitter_bfs(res, b['emitter_events'], unit[1])
        return res
    if _TOP is None:
        spec = {'classes': [], 'root': 'any'}
        dump_json = yatiml.dump_json_function()

        def via_stream(v, indent=None, ensure_ascii=True):
            # the property speaks of dumps_json AND dump_json: the same oracles on what dump_json writes to a stream
            buf = io.StringIO()
            dump_json(v, buf, indent=indent, ensure_ascii=ensure_ascii)
            return buf.getvalue()
        _TOP = (yatiml.dumps_json_function(), loadcase.Case(spec), via_stream)
    dj, anycase, dj_stream = _TOP
    if unit[0] == 'trees':
        _, n, shard, nshards = unit
        inds = INDENTS if n <= b['tree_nodes_all_indents'] else [None, 2]
        for i, t in enumerate(trees(n)):
            if i % nshards != shard:
                continue
            res.states += 1
            for ind in inds:
                for ea in (True, False):
                    res.transitions += 1
                    v = fresh(t)
                    check_json(dj, v, ind, ea, res, 'tree', {'tree': repr(t)}, anycase)
            if n > 1:
                res.nontrivial += 1
                if i % 997 == 0:
                    res.sample({'value': show(fresh(t)), 'json': dj(fresh(t), indent=2)}, 2)
        return res
    if unit[0] == 'longkeys':
        # keys around PyYAML's limit of 1024 characters for an implicit ("simple") key, which the JSON text uses
        for n in (1000, 1021, 1022, 1023, 1024, 1030, 2000):
            for ch in ('k', '\u00e9'):
                v = {ch * n: 1, 'z': [1]}
                res.states += 1
                for ind in (None, 2):
                    for ea in (True, False):
                        res.transitions += 1
                        check_json(dj, v, ind, ea, res, 'long-key', {'longkey': [ch, n]}, anycase)
                res.nontrivial += 1
        return res
    if unit[0] == 'strings':
        _, kpos, first = unit
        L = b['string_maxlen']
        for rest in values.strings(JSON_ALPHA, L - 1):
            s = first + rest
            res.states += 1
            v = {'k': [s]} if kpos == 'value' else {s: 1, 'z': [s]}
            for ind in (None, 2):
                for ea in (True, False):
                    res.transitions += 1
                    check_json(dj, v, ind, ea, res, 'string-' + kpos, {'string': s, 'pos': kpos}, anycase)
                    check_json(dj_stream, v, ind, ea, res, 'stream-string-' + kpos, {'string': s, 'pos': kpos, 'stream': True}, anycase)
            res.nontrivial += 1
        res.sample({'string': first, 'json': dj({'k': first})}, 1)
        return res
    name, spec, maker, reloadable = class_families()[unit[1]]
    case = loadcase.Case(spec)
    djc = yatiml.dumps_json_function(*case.b.registered)
    for j in range(len(maker(case.b))):
        for ind in (None, 0, 2, 4):
            for ea in (True, False):
                v = maker(case.b)[j]
                if not finite_and_string_keys(v) or not is_tree(v):
                    res.hist['outside-domain'] += 1
                    continue
                res.states += 1
                res.transitions += 1
                res.nontrivial += 1
                check_json(djc, v, ind, ea, res, name.split(':')[0], {'family': name, 'index': j}, case if reloadable else None)
    return res


def is_tree(v, seen=None):
    """no container or user object is referenced twice (immutable leaves - dates, paths, string-likes, enum members,
    built-in scalars - have no identity in JSON and may repeat)"""
    seen = set() if seen is None else seen
    kw = getattr(v, '_kw', None)
    if isinstance(v, (list, tuple, dict)) or isinstance(kw, dict):
        if id(v) in seen:
            return False
        seen.add(id(v))
        if isinstance(v, dict):
            return all(is_tree(k, seen) and is_tree(x, seen) for k, x in v.items())
        if isinstance(v, (list, tuple)):
            return all(is_tree(x, seen) for x in v)
        return all(is_tree(x, seen) for x in kw.values())
    return True


def finite_and_string_keys(v):
    if isinstance(v, float):
        return math.isfinite(v)
    if isinstance(v, (list, tuple)):
        return all(finite_and_string_keys(x) for x in v)
    if isinstance(v, dict):
        return all((isinstance(k, (str, collections.UserString)) or hasattr(k, '_v')) and finite_and_string_keys(x) for k, x in v.items())
    kw = getattr(v, '_kw', None)
    if isinstance(kw, dict):
        return finite_and_string_keys(kw)
    return True


def finish(total, tier):
    if total.hist['valid-json'] < 10000 or total.hist['complete-documents'] < 20 or total.hist['reloaded-equal'] < 1000:
        raise core.Vacuous('valid-json=%d complete-documents=%d reloaded=%d' % (
            total.hist['valid-json'], total.hist['complete-documents'], total.hist['reloaded-equal']))


def replay(payload):
    res = core.Result()
    if payload.get('kind') == 'events':
        d, s = new_dumper(payload['indent'])
        st = ()
        for ev in [tuple(e) for e in payload['history']]:
            before = s.getvalue()
            try:
                d.emit(mk_event(ev))
            except Exception as e:     # noqa
                return True, 'event %s raised %s' % (ev, e)
            inc = s.getvalue()[len(before):]
            st, want = transducer(st, ev)
            if (inc != want) if payload['indent'] is None else (strip_ws(inc) != want):
                return True, 'event %s writes %r, reference %r' % (ev, inc, want)
        if st == ():
            d.emit(DocumentEndEvent())
            try:
                parse_json(s.getvalue())
            except NotJson as e:
                return True, 'complete document %r is not JSON: %s' % (s.getvalue(), e)
        return False, 'emitter agrees with the reference transducer on this event sequence'
    d = payload['value']
    dj = yatiml.dumps_json_function()
    anycase = loadcase.Case({'classes': [], 'root': 'any'})
    if 'longkey' in d:
        check_json(dj, {d['longkey'][0] * d['longkey'][1]: 1, 'z': [1]}, payload['indent'], payload['ensure_ascii'], res, payload['fam'], d, anycase)
    elif 'tree' in d:
        v = fresh(eval(d['tree']))
        check_json(dj, v, payload['indent'], payload['ensure_ascii'], res, payload['fam'], d, anycase)
    elif 'string' in d:
        s = d['string']
        v = {'k': [s]} if d['pos'] == 'value' else {s: 1, 'z': [s]}
        if d.get('stream'):
            dump_json = yatiml.dump_json_function()

            def dj(v, indent=None, ensure_ascii=True):     # noqa: F811
                buf = io.StringIO()
                dump_json(v, buf, indent=indent, ensure_ascii=ensure_ascii)
                return buf.getvalue()
        check_json(dj, v, payload['indent'], payload['ensure_ascii'], res, payload['fam'], d, anycase)
    else:
        for name, spec, maker, reloadable in class_families():
            if name == d['family']:
                case = loadcase.Case(spec)
                djc = yatiml.dumps_json_function(*case.b.registered)
                check_json(djc, maker(case.b)[d['index']], payload['indent'], payload['ensure_ascii'], res, payload['fam'], d,
                           case if reloadable else None)
    if res.violations:
        return True, res.violations[0]['what']
    return False, 'valid JSON with the projected content'
