"""C17 - recognition errors point at the offending place.

Strong claim: hierarchy-free models x every valid document (block style, so that lines mean
something) x every single-point corruption (scalar of every other kind at each value scalar,
unknown enum member, misspelt / dropped / added key at each mapping).  When the corrupted
document is rejected with RecognitionError, some cited position must be on the line of the
corrupted node, of its key, or of the start of the enclosing mapping, and for an unknown or
missing key of a class mapping the message must name the key.

Weak claim: every RecognitionError observed for any model (hierarchies, unions, adversarial
hooks, raising constructors included) on any parseable document cites at least one position
and every cited position lies inside the document.
"""
import re

import yaml
import yatiml

from mc import catalog, core, docs, loadcase, models
from mc.docs import M, Q, S
from mc.loadcase import show
from mc.models import T
from mc.props import C13
from mc.props.C18 import node_at

PROPERTY = 'C17'
RULE = ('choice tree: model x valid document x corruption site x corruption operator (strong claim), and model x document of '
        'D(T) (weak claim); each leaf is rendered in block style, composed (marks of the corrupted node, its key and the '
        'enclosing mapping are read from the composed nodes), loaded with the real load function and the "line N, column M" '
        'positions and quoted key names are parsed from the RecognitionError message; non-trivial = rejected documents whose '
        'message was examined')
ASSUMPTIONS = [
    'positions are parsed from the message with the pattern "line N, column M" (PyYAML mark format)',
    'the enclosing mapping of a corruption site is the nearest mapping ancestor (for key operators: the mapping itself, '
    'and the line of the key under which that mapping sits)',
    'a corruption that leaves the document acceptable (optional key dropped, key added to a class with _yatiml_extra) is no '
    'corruption and is skipped; corruptions reported by a YAML error rather than RecognitionError are C08\'s business',
    'a user hook that installs a hand-made yaml node without marks is outside the claim (such adversarial models of C01 are '
    'left out here)',
    'inside the document = 1 <= line <= number of lines + 1 and 1 <= column <= length of that line + 1',
]
POS = re.compile(r'line (\d+), column (\d+)')
STRONG_OPS = ('kind', 'nonmember', 'misspell', 'dropkey', 'addkey', 'dupkey', 'intkey')


def BOUNDS(tier):
    return {'strong_models': len([1 for k, _, _ in cat(tier) if k == 'strong']),
            'weak_models': len([1 for k, _, _ in cat(tier) if k == 'weak']),
            'collection_width': 2, 'corruptions': 'every site x ' + ', '.join(STRONG_OPS)}


def hierarchy_free(spec):
    return not any(c.get('bases') for c in spec['classes'])


def weak_models(tier):
    out = []
    hs = list(catalog.hierarchy_models(3 if tier == 'quick' else 4))
    step = 9 if tier == 'quick' else 2
    for n, s in hs[::step]:
        out.append(('weak', 'hier-' + n, s))
    if tier == 'quick':
        # a slice of the four-class hierarchies too (an abstract or failing sibling next to two matching ones
        # needs four classes)
        h4 = [(n, s) for n, s in catalog.hierarchy_models(4) if len(s['classes']) == 4]
        for n, s in h4[::41]:
            out.append(('weak', 'hier-' + n, s))
    from mc.props import C03, C01
    for fam, s in C03.discriminating_models(tier) + C03.enum_union_models():
        out.append(('weak', fam, s))
    if hasattr(C01, 'adversarial_models'):
        for fam, s in C01.adversarial_models():
            # hooks that install hand-made nodes without marks leave yatiml nothing of the document to cite
            ops = [op[0] for c in s['classes'] for ops_ in (c.get('hooks') or {}).values() for op in ops_]
            if 'replace_node' in ops or 'set_attr_node' in ops:
                continue
            out.append(('weak', 'adv-' + fam, s))
    # a class that occurs in an annotation but was not given to load_function(): yatiml reports it with a
    # RecognitionError ("is it registered?"), which like every RecognitionError has to say where in the document it gave up
    un = {'name': 'Un', 'params': [('p', 'int')], 'registered': False}
    for root, extra_cls in ((('cls', 'K'), {'name': 'K', 'params': [('x', 'int'), ('u', ('cls', 'Un'))]}),
                            (('cls', 'K'), {'name': 'K', 'params': [('x', 'int'), ('l', ('list', ('cls', 'Un')), None)]}),
                            (('cls', 'K'), {'name': 'K', 'params': [('u', ('union', [('cls', 'Un'), 'int'])), ('d', ('dict', 'str', ('cls', 'Un')), None)]}),
                            (('list', ('cls', 'Un')), None), (('dict', 'str', ('opt', ('cls', 'Un'))), None)):
        out.append(('weak', 'unregistered-type', {'classes': catalog.BASE + [un] + ([extra_cls] if extra_cls else []), 'root': root}))
    # constructors and hooks that raise: the RecognitionError is made by yatiml around them
    for exc in ('ValueError', 'KeyError', 'TypeError', 'ValueError!', 'AssertionError'):
        out.append(('weak', 'raising', {'classes': catalog.BASE + [{'name': 'K', 'params': [('x', 'int')], 'raises': exc}],
                                        'root': ('list', ('cls', 'K'))}))
    for exc in ('SeasoningError', 'SeasoningError!'):
        out.append(('weak', 'raising', {'classes': catalog.BASE + [{'name': 'K', 'params': [('x', 'int')],
                                                                    'hooks': {'savorize': [('raise', exc)]}}],
                                        'root': ('dict', 'str', ('cls', 'K'))}))
    out.append(('weak', 'raising', {'classes': catalog.BASE + [{'name': 'K', 'params': [('x', 'int')],
                                                                'hooks': {'savorize': [('get_attr', 'nope')]}}],
                                    'root': ('cls', 'K')}))
    # the parsed-class recipe of the documentation: a string is taken apart and the mapping is built with make_mapping()
    # and set_attribute(); what is wrong with a part is reported for a node made by the helpers
    en = {'name': 'En', 'kind': 'enum', 'members': ['north', 'south']}
    for t2 in (('cls', 'En'), 'int', ('list', 'int')):
        k = {'name': 'K', 'params': [('n', 'str'), ('e', t2)],
             'hooks': {'recognize': [('require_scalar', ['str'])], 'savorize': [('parse_pair', 'n', 'e')]},
             'docs': [S('str', 'x north'), S('str', 'y south'), S('str', 'x zzz'), S('str', 'x'), S('str', 'x 5'), S('str', '')]}
        out.append(('weak', 'parsed-class', {'classes': catalog.BASE + [en, k], 'root': ('list', ('cls', 'K'))}))
        out.append(('weak', 'parsed-class', {'classes': catalog.BASE + [en, k, {'name': 'H', 'params': [('k', ('cls', 'K')), ('m', 'int', 0)]}],
                                             'root': ('dict', 'str', ('cls', 'H'))}))
    for kind in ('userstring', 'ystring'):
        out.append(('weak', 'raising', {'classes': catalog.BASE + [{'name': 'W', 'kind': kind, 'raises': 'ValueError'}],
                                        'root': ('list', ('cls', 'W'))}))
    return out


_CAT = {}


def cat(tier):
    if tier not in _CAT:
        c = []
        for fam, spec in catalog.all_load_models(tier):
            if hierarchy_free(spec) and fam not in ('season', 'hook-sharing'):
                c.append(('strong', fam, spec))
            else:
                c.append(('weak', fam, spec))
        if tier == 'quick':
            c = c[::2]
        en = {'name': 'En', 'kind': 'enum', 'members': ['north', 'south']}
        for t in (('list', ('cls', 'En')), ('dict', 'str', ('cls', 'En')), ('opt', ('cls', 'En'))):
            c.append(('strong', 'enum', {'classes': catalog.BASE + [en], 'root': t}))
            c.append(('strong', 'enum', {'classes': catalog.BASE + [en, {'name': 'K', 'params': [('e', ('cls', 'En')), ('f', t, None)]}],
                                         'root': ('list', ('cls', 'K'))}))
        for t in (('union', ['int', ('list', 'int')]), ('union', [('list', 'str'), 'str']), ('union', ['bool', ('dict', 'str', 'int')]),
                  ('union', ['int', ('list', ('union', ['int', ('list', 'int')]))])):
            c.append(('strong', 'union-coll', {'classes': catalog.BASE, 'root': t}))
            c.append(('strong', 'union-coll', {'classes': catalog.BASE + [{'name': 'K', 'params': [('u', t), ('v', 'int', 1)]}],
                                               'root': ('dict', 'str', ('cls', 'K'))}))
        # a Union of two unrelated classes that share an attribute name with different types
        ua = {'name': 'Ua', 'params': [('label', 'str'), ('size', 'int'), ('note', 'str', 'n')]}
        ub = {'name': 'Ub', 'params': [('size', ('list', 'int')), ('w', 'int')]}
        for root in (('union', [('cls', 'Ua'), ('cls', 'Ub')]), ('list', ('union', [('cls', 'Ub'), ('cls', 'Ua')]))):
            c.append(('strong', 'union-classes', {'classes': catalog.BASE + [ua, ub], 'root': root}))
        c.append(('strong', 'union-classes', {'classes': catalog.BASE + [ua, ub, {'name': 'K', 'params': [
            ('u', ('union', [('cls', 'Ua'), ('cls', 'Ub')])), ('n', 'int', 0)]}], 'root': ('dict', 'str', ('cls', 'K'))}))
        for nreq, nopt in ((8, 0), (7, 2), (9, 1), (4, 5)):
            big = {'name': 'Big', 'params': [('p%d_x' % i, 'int') for i in range(nreq)] + [('o%d' % i, 'str', 'd') for i in range(nopt)]}
            c.append(('strong', 'many-params', {'classes': catalog.BASE + [big], 'root': ('list', ('cls', 'Big'))}))
            c.append(('strong', 'many-params', {'classes': catalog.BASE + [big, {'name': 'K', 'params': [('b', ('cls', 'Big')), ('n', 'int', 0)]}],
                                                'root': ('dict', 'str', ('cls', 'K'))}))
        _CAT[tier] = c + weak_models(tier)
    return _CAT[tier]


def units(tier):
    return list(range(len(cat(tier)))) + [('alias', i) for i in range(len(ALIAS_TYPES))]


# the corrupted node is an ALIAS of a node that is fine where it is anchored (an untyped attribute): the corruption is at
# the alias, two lines below the anchor and below the start of the enclosing mapping
ALIAS_TYPES = ['int', 'str', 'bool', 'float', ('cls', 'En'), ('cls', 'In'), ('list', 'int'), ('dict', 'str', 'int'), 'date']
ALIAS_VALUES = [S('int', '1'), S('str', 'x'), S('bool', 'true'), S('float', '1.5'), S('str', 'north'), S('null', '~'),
                M([(S('str', 'p'), S('int', '1'))]), M([(S('str', 'k'), S('str', 'v'))]), Q([S('int', '1')]), Q([S('str', 'a')]),
                S('timestamp', '2001-01-01')]


def alias_unit(res, i):
    for where in ('value', 'item0', 'item1', 'dictvalue'):
        alias_unit_at(res, i, where)


def alias_unit_at(res, i, where):
    t = ALIAS_TYPES[i]
    en = {'name': 'En', 'kind': 'enum', 'members': ['north', 'south']}
    tb = {'value': t, 'item0': ('list', t), 'item1': ('list', t), 'dictvalue': ('dict', 'str', t)}[where]
    spec = {'classes': catalog.BASE + [en, {'name': 'K', 'params': [('z', 'int'), ('a', 'any'), ('b', tb)]}], 'root': ('cls', 'K')}
    case = loadcase.Case(spec)
    good = docs.valid(spec, t)[:1]
    for v in ALIAS_VALUES:
        res.states += 1
        if where == 'value':
            bval = v
        elif where == 'item0':
            bval = Q([v] + good)
        elif where == 'item1':
            bval = Q(good + [v])
        else:
            bval = M([(S('str', 'k'), v)])
        root = models.to_node(M([(S('str', 'z'), S('int', '0')), (S('str', 'a'), v), (S('str', 'b'), bval)]))
        anchor = root.value[1][1]
        if where == 'value':
            root.value[2] = (root.value[2][0], anchor)        # b's value IS a's value: anchor and alias
        elif where in ('item0', 'item1'):
            root.value[2][1].value[0 if where == 'item0' else len(good)] = anchor
        else:
            root.value[2][1].value[0] = (root.value[2][1].value[0][0], anchor)
        text = case.R.serialize(root)
        plain = case.R.render(M([(S('str', 'z'), S('int', '0')), (S('str', 'a'), v), (S('str', 'b'), bval)]))
        o, op = case.impl(text), case.impl(plain)
        res.transitions += 1
        res.traces += 2
        if o[0] != 'rej' or op[0] != 'rej':
            res.hist['alias:' + o[0]] += 1
            continue
        res.nontrivial += 1
        comp = case.R.compose(plain)
        b_key, b_val = comp.value[2]
        lines = {b_key.start_mark.line + 1, b_val.start_mark.line + 1, comp.start_mark.line + 1}
        # inside a wrong collection the offending node may be further down: any line of b's value counts
        lines |= set(range(b_val.start_mark.line + 1, b_val.end_mark.line + 2))
        # the alias form has the same lines for z, a and b (the anchor only adds '&id001' to a's line)
        got = {ln for ln, _ in cited(o[1])}
        gotp = {ln for ln, _ in cited(op[1])}
        if gotp & lines and not (got & lines):
            res.violation('C17:strong:alias-cites-anchor',
                          'document %r (b is an alias of a, and wrong for %s): the message cites line(s) %s - the anchor - and none of %s; '
                          'written out (%r) it cites %s' % (text, t, sorted(got), sorted(lines), plain, sorted(gotp)),
                          loadcase.payload(spec, text, claim='alias', plain=plain))
        else:
            res.hist['alias:line-ok'] += 1


# ---------------------------------------------------------------- positions

SRCPOS = re.compile(r'in "([^"]*)", line (\d+), column (\d+)')


def cited(msg):
    out = []
    named = {(int(a), int(b)): n for n, a, b in SRCPOS.findall(msg)}
    for a, b in POS.findall(msg):
        p = (int(a), int(b))
        # a position in something that is not the document ("generated node", the marks the Node helpers used to put
        # on the nodes they make) is not a position inside the document
        out.append((-1, -1) if named.get(p, '<unicode string>') == 'generated node' else p)
    return out


def inside(text, line, col):
    lines = text.split('\n')
    if not (1 <= line <= len(lines) + 1):
        return False
    ln = lines[line - 1] if line - 1 < len(lines) else ''
    return 1 <= col <= len(ln) + 1


def line_of(root, path):
    return node_at(root, path).start_mark.line + 1


def nearest_mapping(tree, path):
    """path of the nearest strict ancestor that is a mapping, or None"""
    p = path[:-1]
    while True:
        if docs.get_at(tree, p)[0] == 'm':
            return p
        if not p:
            return None
        p = p[:-1]


def key_path_of(path):
    """if the node at path is a mapping value, the path of its key"""
    if path and isinstance(path[-1], tuple) and path[-1][1] == 1:
        return path[:-1] + ((path[-1][0], 0),)
    return None


def allowed_lines(op, site, tree0, tree1, root1):
    """lines (in the corrupted document) that the message may point at, and key names it must mention"""
    lines = set()
    names = None
    if op in ('kind', 'nonmember'):
        lines.add(line_of(root1, site))
        kp = key_path_of(site)
        if kp is not None:
            lines.add(line_of(root1, kp))
        mp = nearest_mapping(tree1, site)
        if mp is not None:
            lines.add(line_of(root1, mp))
        # a scalar inside a sequence: the sequence's own key line is not added (not in the statement)
    elif op == 'misspell':
        # site = path of the key node
        lines.add(line_of(root1, site))
        mp = site[:-1]
        lines.add(line_of(root1, mp))
        kp = key_path_of(mp)
        if kp is not None:
            lines.add(line_of(root1, kp))
        names = {docs.get_at(tree0, site)[2], docs.get_at(tree1, site)[2]}
    elif op in ('dupkey', 'intkey'):
        # site = path of the mapping; the offending pair was appended at its end ('dupkey': a key written twice, e.g. a
        # key misspelt into the name of its neighbour; 'intkey': an added key that YAML reads as a number)
        lines.add(line_of(root1, site))
        kp = key_path_of(site)
        if kp is not None:
            lines.add(line_of(root1, kp))
        m1n = node_at(root1, site)
        last_key = m1n.value[-1][0]
        lines.add(last_key.start_mark.line + 1)
        for kn, _ in m1n.value[:-1]:
            if kn.value == last_key.value:
                lines.add(kn.start_mark.line + 1)
        names = {str(last_key.value)}
    elif op in ('dropkey', 'addkey'):
        # site = path of the mapping
        lines.add(line_of(root1, site))
        kp = key_path_of(site)
        if kp is not None:
            lines.add(line_of(root1, kp))
        m0, m1 = docs.get_at(tree0, site), docs.get_at(tree1, site)
        k0 = [k[2] for k, _ in m0[2]]
        k1 = [k[2] for k, _ in m1[2]]
        if op == 'dropkey':
            names = {k for k in k0 if k not in k1}
            mp = nearest_mapping(tree1, site) if site else None
            if mp is not None:
                lines.add(line_of(root1, mp))
        else:
            names = {k for k in k1 if k not in k0}
            lines.add(node_at(root1, site).value[-1][0].start_mark.line + 1)
    return lines, names


def check_weak(res, spec, text, msg, fam):
    pos = cited(msg)
    res.hist['weak-examined'] += 1
    if not pos:
        res.violation('C17:weak:no-position:' + fam.split('-')[0],
                      'RecognitionError for %r cites no position: %s' % (text, msg.replace('\n', ' / ')[:300]),
                      loadcase.payload(spec, text, claim='weak'))
        return False
    bad = [p for p in pos if not inside(text, *p)]
    if bad:
        res.violation('C17:weak:outside:' + fam.split('-')[0],
                      'RecognitionError for %r cites %s, outside the document: %s' % (text, bad, msg.replace('\n', ' / ')[:300]),
                      loadcase.payload(spec, text, claim='weak'))
        return False
    return True


CONTEXTS = [('scalar-alias-before', S('int', '1'), True), ('collection-alias-before', Q([S('int', '1')]), True),
            ('scalar-alias-after', S('str', 'a'), False), ('collection-alias-after', M([(S('str', 'k'), S('int', '1'))]), False)]


def context_cases(res, case, spec, fam, tree0, op, site, tree1, tier='thorough'):
    """the same corrupted document as attribute `v` of an enclosing object that also has two untyped attributes, one an
    alias of the other (an anchored scalar or collection, before or after `v`): what is said about the corrupted place
    must not depend on an alias elsewhere in the document"""
    if not hasattr(case, '_ctx'):
        ctx = {'name': 'Ctx', 'params': [('c', 'any'), ('d', 'any'), ('v', spec['root'])]}
        ctxb = {'name': 'Ctx', 'params': [('v', spec['root']), ('c', 'any', None), ('d', 'any', None)]}
        case._ctx = (loadcase.Case(dict(spec, classes=list(spec['classes']) + [ctx], root=('cls', 'Ctx'))),
                     loadcase.Case(dict(spec, classes=list(spec['classes']) + [ctxb], root=('cls', 'Ctx'))))
    for cname, shared, before in (CONTEXTS if tier == 'thorough' else CONTEXTS[:1] + CONTEXTS[3:]):
        c2 = case._ctx[0 if before else 1]
        pairs0 = [(S('str', 'c'), shared), (S('str', 'd'), shared)]
        w0 = M(pairs0 + [(S('str', 'v'), tree0)]) if before else M([(S('str', 'v'), tree0)] + pairs0)
        w1 = M(pairs0 + [(S('str', 'v'), tree1)]) if before else M([(S('str', 'v'), tree1)] + pairs0)
        vi = 2 if before else 0
        root = models.to_node(w1)
        ci, di = (0, 1) if before else (1, 2)
        root.value[di] = (root.value[di][0], root.value[ci][1])
        try:
            text = c2.R.serialize(root)
            root1 = c2.R.compose(text)
        except Exception:     # noqa
            res.hist['context:unrenderable'] += 1
            continue
        if root1.value[ci][1] is not root1.value[di][1] or models.view(root1) != models.view(models.to_node(w1)):
            res.hist['context:render-mismatch'] += 1
            continue
        res.transitions += 1
        res.traces += 1
        o = c2.impl(text)
        if o[0] != 'rej':
            res.hist['context:' + o[0]] += 1
            continue
        lines, _ = allowed_lines(op, ((vi, 1),) + tuple(site), w0, w1, root1)
        lines = set(lines) | {root1.value[vi][0].start_mark.line + 1}
        got = {ln for ln, _ in cited(o[1])}
        if not (got & lines):
            res.violation('C17:strong:context:%s:%s' % (cname, op),
                          '%s at %s, the document being attribute v of an object whose attributes c and d are an anchor and its alias (%s): '
                          '%r: message cites line(s) %s, expected one of %s: %s' % (
                              op, list(site), cname, text, sorted(got), sorted(lines), o[1].replace('\n', ' / ')[:300]),
                          loadcase.payload(c2.spec, text, claim='context', lines=sorted(lines)))
        else:
            res.hist['context:line-ok:' + cname] += 1


def strong_case(res, case, spec, fam, tree0, op, site, tree1, class_paths):
    text, back = case.R.checked(tree1)
    if text is None:
        res.hist['render-mismatch'] += 1
        return
    res.transitions += 1
    o = case.impl(text)
    res.traces += 1
    if o[0] == 'ok':
        res.hist['strong:still-valid'] += 1
        return
    if o[0] != 'rej':
        res.hist['strong:reported-by-' + o[0]] += 1
        return
    msg = o[1]
    res.nontrivial += 1
    if not check_weak(res, spec, text, msg, fam):
        return
    root1 = case.R.compose(text)
    lines, names = allowed_lines(op, site, tree0, tree1, root1)
    got = {l for l, _ in cited(msg)}
    pl = loadcase.payload(spec, text, claim='strong', op=op, site=[list(x) if isinstance(x, tuple) else x for x in site],
                          original=case.R.render(tree0))
    if not (got & lines):
        res.violation('C17:strong:line:%s:%s' % (op, fam),
                      '%s at %s of %r: message cites line(s) %s, expected one of %s: %s' % (
                          op, site, text, sorted(got), sorted(lines), msg.replace('\n', ' / ')[:300]), pl)
        return
    res.hist['strong:line-ok:' + op] += 1
    context_cases(res, case, spec, fam, tree0, op, site, tree1, getattr(case, '_tier', 'thorough'))
    if names is not None:
        mp = site[:-1] if op == 'misspell' else site
        if mp in class_paths:
            if not any(('"%s"' % n) in msg or ("'%s'" % n) in msg or re.search(r'\b%s\b' % re.escape(n), msg) for n in names):
                res.violation('C17:strong:key-not-named:%s:%s' % (op, fam),
                              '%s at %s of %r: message names none of %s: %s' % (
                                  op, site, text, sorted(names), msg.replace('\n', ' / ')[:300]), pl)
                return
            res.hist['strong:key-named:' + op] += 1
    if res.hist['strong:line-ok:' + op] == 1:
        res.sample({'model': models.source_of(spec)[-3:], 'corruption': '%s at %s' % (op, list(site)), 'text': text,
                    'message': msg.replace('\n', ' / ')[:240]}, 4)


def run_unit(unit, tier):
    res = core.Result()
    if isinstance(unit, tuple):
        alias_unit(res, unit[1])
        return res
    claim, fam, spec = cat(tier)[unit]
    case = loadcase.Case(spec)
    case._tier = tier
    res.states += 1
    if claim == 'strong':
        trees = docs.valid(spec, spec['root'], k=2)
        for tree0 in trees:
            text0, back0 = case.R.checked(tree0)
            if text0 is None:
                continue
            if case.impl(text0)[0] != 'ok':
                res.hist['strong:base-not-valid'] += 1
                continue
            res.states += 1
            for kind, site, tree1 in docs.mutations(tree0, (), 'zzz'):
                op = kind.split(':')[0]
                if op not in STRONG_OPS:
                    continue
                if op == 'kind' and docs.is_key_path(site):
                    continue
                class_paths = C13.class_mapping_paths(spec, tree1)
                strong_case(res, case, spec, fam, tree0, op, site, tree1, class_paths)
            # unknown enum members that are near misses of a real member (one letter dropped / added / case changed)
            members = {m for c in spec['classes'] if c.get('kind') == 'enum' for m in c['members']}
            for site, node in docs.positions(tree0):
                if node[0] == 's' and node[2] in members and not docs.is_key_path(site):
                    m = node[2]
                    for near in (m[:-1], m + 'x', m.capitalize() if m.capitalize() != m else m.upper(), m[1:]):
                        if near and near not in members:
                            tree1 = docs.replace(tree0, site, ('s', node[1], near))
                            strong_case(res, case, spec, fam, tree0, 'nonmember', site, tree1, ())
    # weak claim over the whole document set of every model
    names = [c.__name__ for c in case.b.registered if c.__name__ in ('K', 'In', 'C1', 'C2')]
    tags = ['!' + n for n in names] + ['!Unknown', '!!str']
    ds = loadcase.document_set(spec, case, tier, tags=tags, n_mut=6 if tier == 'quick' else None,
                               tiny_n=3 if tier == 'quick' else 4)
    for kind, site, tree in ds:
        text, back = case.R.checked(tree)
        if text is None:
            continue
        res.states += 1
        res.transitions += 1
        o = case.impl(text)
        res.traces += 1
        if o[0] == 'rej':
            res.nontrivial += 1
            if check_weak(res, spec, text, o[1], fam):
                res.hist['weak:ok'] += 1
        else:
            res.hist['weak:' + o[0]] += 1
    for text in ('', '---\n', '# c\n'):
        o = case.impl(text)
        res.traces += 1
        if o[0] == 'rej' and check_weak(res, spec, text, o[1], fam):
            res.hist['weak:ok-empty'] += 1
    res.hist['models:' + claim] += 1
    return res


def finish(total, tier):
    for op in STRONG_OPS:
        if total.hist['strong:line-ok:' + op] < 100:
            raise core.Vacuous('corruption operator %s examined only %d times' % (op, total.hist['strong:line-ok:' + op]))
    for op in ('misspell', 'dropkey', 'addkey', 'dupkey', 'intkey'):
        if total.hist['strong:key-named:' + op] < 50:
            raise core.Vacuous('key naming for %s examined only %d times' % (op, total.hist['strong:key-named:' + op]))
    if total.hist['weak:ok'] < 1000:
        raise core.Vacuous('weak claim examined only %d times' % total.hist['weak:ok'])


def replay(payload):
    spec = payload['spec']
    case = loadcase.Case(spec)
    text = payload['text']
    o = case.impl(text)
    if o[0] != 'rej':
        return False, 'no RecognitionError: %s' % (o[0],)
    res = core.Result()
    if not check_weak(res, spec, text, o[1], 'replay'):
        return True, res.violations[0]['what']
    if payload.get('claim') == 'context':
        case = loadcase.Case(payload['spec'])
        o = case.impl(payload['text'])
        if o[0] != 'rej':
            return False, 'outcome ' + o[0]
        got = {ln for ln, _ in cited(o[1])}
        return not (got & set(payload['lines'])), 'message cites %s, expected one of %s' % (sorted(got), payload['lines'])
    if payload.get('claim') == 'alias':
        op = case.impl(payload['plain'])
        comp = case.R.compose(payload['plain'])
        b_key, b_val = comp.value[2]
        lines = {b_key.start_mark.line + 1, comp.start_mark.line + 1} | set(range(b_val.start_mark.line + 1, b_val.end_mark.line + 2))
        got = {ln for ln, _ in cited(o[1])}
        if op[0] == 'rej' and {ln for ln, _ in cited(op[1])} & lines and not (got & lines):
            return True, 'cited lines %s (the anchor), expected one of %s: %s' % (sorted(got), sorted(lines), o[1].replace('\n', ' / ')[:300])
        return False, 'the message points at the alias'
    if payload.get('claim') == 'strong':
        tree1 = models.view(case.R.compose(text))
        tree0 = models.view(case.R.compose(payload['original']))
        # views carry full tags; positions/get_at only need the shape
        site = tuple(tuple(x) if isinstance(x, list) else x for x in payload['site'])
        root1 = case.R.compose(text)
        lines, names = allowed_lines(payload['op'], site, tree0, tree1, root1)
        got = {l for l, _ in cited(o[1])}
        if not (got & lines):
            return True, 'cited lines %s, expected one of %s: %s' % (sorted(got), sorted(lines), o[1])
        if names is not None and 'key-not-named' in payload.get('key', ''):
            if not any(n in o[1] for n in names):
                return True, 'message names none of %s: %s' % (sorted(names), o[1])
    return False, 'message points at the corruption: %s' % o[1].replace('\n', ' / ')[:300]
