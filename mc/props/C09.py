"""C09 - plain scalars are typed by YAML 1.2 rules for booleans and floats.

(a) all lengths: the implicit-resolver table of a live Loader instance is turned into
    DFAs; the product with reference DFAs (YAML 1.2 core schema productions, and the
    pristine PyYAML table for every other tag) is explored exhaustively.
(b) end to end: every string up to a length bound over two alphabets is resolved with
    the real Loader.resolve and loaded with the real load function.
"""
import itertools
import math
import re

import yaml
import yatiml

from mc import automata, core

PROPERTY = 'C09'
P = 'tag:yaml.org,2002:'
RULE = ('(a) product automaton of all resolver regexes (live Loader instance) x reference YAML 1.2 float/bool '
        'regexes x pristine PyYAML table: every reachable product state x first-character class is compared; '
        '(b) every string over the number alphabet and the word alphabet up to the length bound is composed, '
        'resolved with Loader.resolve and loaded with load_function(); a case is non-trivial when it is a plain '
        'scalar that either side types as bool or float')
ASSUMPTIONS = [
    'the regex->DFA translation is validated against re.match on every string enumerated in (b)',
    'the reference languages are the YAML 1.2 core-schema productions (a sign is allowed on numbers and .inf, not on .nan)',
    'strings ending in a line feed are not plain scalars (the scanner strips trailing white space) and are ignored',
    'strings outside the two alphabets are covered only by (a)',
]
NUM_ALPHA = '019.eE+-_:xob'
WORD_ALPHA = 'truefalsynoiTRUEFALSYNOI.'
TF_ALPHA = 'truefalsTRUEFALS'
ALPHAS = {'num': NUM_ALPHA, 'word': WORD_ALPHA, 'tf': TF_ALPHA}


def BOUNDS(tier):
    return {'num_alphabet': NUM_ALPHA, 'num_maxlen': 5 if tier == 'quick' else 6,
            'word_alphabet': WORD_ALPHA, 'word_maxlen': 4 if tier == 'quick' else 5,
            'tf_alphabet': TF_ALPHA, 'tf_maxlen': 5 if tier == 'quick' else 6,
            'automata': 'all lengths, all code points (partitioned into classes)'}


REF_FLOAT = re.compile(r'(?:[-+]?(?:\.[0-9]+|[0-9]+(?:\.[0-9]*)?)(?:[eE][-+]?[0-9]+)?|[-+]?\.(?:inf|Inf|INF)|\.(?:nan|NaN|NAN))\Z')
REF_INTLIKE = re.compile(r'[-+]?[0-9]+\Z')
REF_BOOL = re.compile(r'(?:true|True|TRUE|false|False|FALSE)\Z')
# nothing is left to discretion: YAML 1.2 allows a sign on numbers and on .inf, not on .nan, so '-.nan' is a string
# (an earlier version accepted either typing for a signed .nan)
DONTCARE = re.compile(u'[^\x00-\U0010FFFF]\\Z')
NOTPLAIN = re.compile(r'[\x00-\U0010ffff]*\n\Z')


def ref_is_float(s):
    return bool(REF_FLOAT.match(s)) and not REF_INTLIKE.match(s)


def ref_is_bool(s):
    return bool(REF_BOOL.match(s))


def ref_float_value(s):
    t = s.lower()
    sign = -1.0 if t[0] == '-' else 1.0
    if t[0] in '+-':
        t = t[1:]
    if t == '.inf':
        return sign * math.inf
    if t == '.nan':
        return math.nan
    return sign * float(t)


_LOAD = None
_INST = None
_PRISTINE = None


def setup():
    global _LOAD, _INST, _PRISTINE
    if _LOAD is None:
        _LOAD = yatiml.load_function()
        _INST = _LOAD.loader('')
        _PRISTINE = {k: [(t, r) for t, r in v if t not in (P + 'float', P + 'bool')]
                     for k, v in yaml.SafeLoader.yaml_implicit_resolvers.items()}
    return _LOAD, _INST, _PRISTINE


def table_resolve(table, s):
    if s == '':
        lst = table.get('', [])
    else:
        lst = table.get(s[0], [])
    for tag, rx in lst + table.get(None, []):
        if rx.match(s):
            return tag
    return P + 'str'


def expected_tag(s, pristine):
    if ref_is_bool(s):
        return P + 'bool'
    if ref_is_float(s):
        return P + 'float'
    return table_resolve(pristine, s)


def compose_plain(s):
    """the text s as a one-scalar document: (True, node) iff it is a single plain scalar with value s"""
    try:
        ld = yaml.SafeLoader(s)
        try:
            node = ld.get_single_node()
        finally:
            ld.dispose()
    except yaml.YAMLError:
        return None
    if isinstance(node, yaml.ScalarNode) and node.style is None and node.value == s:
        return node
    return None


def check_string(s, res, full, dfas=None):
    load, inst, pristine = setup()
    got = inst.resolve(yaml.ScalarNode, s, (True, False))
    want = expected_tag(s, pristine)
    res.transitions += 1
    if dfas is not None:
        # conformance of the automata with the real regexes on this string
        for rx, d in dfas:
            if d.accepts(s) != (rx.match(s) is not None):
                raise core.HarnessError('DFA disagrees with re.match on %r for %r' % (s, rx.pattern))
    if got != want and not (DONTCARE.match(s) and got in (P + 'float', P + 'str')) and not NOTPLAIN.match(s):
        res.violation('C09:resolve:%s-as-%s' % (want[len(P):], got[len(P):]),
                      'plain scalar %r resolves to %s, YAML 1.2/PyYAML rules say %s' % (s, got, want),
                      {'kind': 'string', 'text': s})
    interesting = (P + 'float' in (got, want)) or (P + 'bool' in (got, want))
    if not (full or interesting):
        return
    node = compose_plain(s)
    if node is None:
        res.hist['not-a-plain-scalar-document'] += 1
        return
    res.traces += 1
    try:
        v = load(s)
        exc = None
    except Exception as e:     # noqa
        v, exc = None, e
    if want == P + 'bool':
        ok = exc is None and type(v) is bool and v == (s.lower() == 'true')
        res.hist['bool'] += 1
        res.nontrivial += 1
    elif want == P + 'float':
        rv = ref_float_value(s)
        ok = exc is None and type(v) is float and (v == rv or (v != v and rv != rv))
        res.hist['float'] += 1
        res.nontrivial += 1
        res.sample({'text': s, 'loaded': repr(v)})
    elif DONTCARE.match(s):
        ok = exc is None and ((type(v) is float and v != v) or v == s)
        res.hist['signed-nan'] += 1
    else:
        if exc is not None:
            # which exception escapes is C08's business unless the scalar was typed bool/float
            ok = got not in (P + 'float', P + 'bool')
            res.hist['other-raises'] += 1
        else:
            ok = type(v) is not bool and type(v) is not float
            res.hist['other:' + type(v).__name__] += 1
        if interesting:
            res.nontrivial += 1
    if not ok:
        kind = 'raises:' + type(exc).__name__ if exc is not None else 'value:' + type(v).__name__
        res.violation('C09:load:%s:%s' % (want[len(P):], kind),
                      'text %r should load as %s; got %s' % (
                          s, want, ('%s: %s' % (type(exc).__name__, exc)) if exc is not None else repr(v)),
                      {'kind': 'string', 'text': s})


# ------------------------------------------------------------------ automata part

def build_automata(variant=None):
    load, inst, pristine = setup()
    table = inst.yaml_implicit_resolvers
    if variant is not None:
        table, pristine = variant
    rxs = []        # distinct regex objects

    def idx(rx):
        for i, r in enumerate(rxs):
            if r.pattern == rx.pattern and r.flags == rx.flags:
                return i
        rxs.append(rx)
        return len(rxs) - 1
    t_impl = {k: [(t, idx(r)) for t, r in v] for k, v in table.items()}
    t_pris = {k: [(t, idx(r)) for t, r in v] for k, v in pristine.items()}
    i_float, i_int, i_bool, i_dc, i_np = idx(REF_FLOAT), idx(REF_INTLIKE), idx(REF_BOOL), idx(DONTCARE), idx(NOTPLAIN)
    nfas = [automata.compile_nfa(r) for r in rxs]
    keys = ''.join(k for k in list(table) + list(pristine) if k)
    syms = automata.alphabet(nfas, keys)
    dfas = [automata.to_dfa(n, syms) for n in nfas]
    return rxs, dfas, syms, t_impl, t_pris, (i_float, i_int, i_bool, i_dc, i_np)


def run_automata(res, variant=None, vname=''):
    try:
        rxs, dfas, syms, t_impl, t_pris, (i_float, i_int, i_bool, i_dc, i_np) = build_automata(variant)
    except automata.Unsupported as e:
        res.extra['all_lengths'] = 0
        res.hist['automata-unsupported:' + str(e)[:60]] += 1
        return None

    def bucket(table, first_sym):
        if first_sym is None:
            return table.get('', []) + table.get(None, [])
        lo, hi = syms[first_sym]
        out = None
        for k, v in table.items():
            if k and lo <= ord(k) <= hi:
                if lo != hi:
                    raise core.HarnessError('alphabet partition does not isolate %r' % k)
                out = v
        return (out or []) + table.get(None, [])

    def tag_of(table, first_sym, S):
        for tag, i in bucket(table, first_sym):
            if dfas[i].acc[S[i]]:
                return tag
        return P + 'str'

    nstates = 0
    # explore (first symbol, product state) exhaustively
    from collections import deque
    s0 = tuple(0 for _ in dfas)
    seen = {(None, s0): ()}
    q = deque([(None, s0)])
    while q:
        first, S = q.popleft()
        nstates += 1
        w = seen[(first, S)]
        impl = tag_of(t_impl, first, S)
        if dfas[i_bool].acc[S[i_bool]]:
            want = P + 'bool'
        elif dfas[i_float].acc[S[i_float]] and not dfas[i_int].acc[S[i_int]]:
            want = P + 'float'
        else:
            want = tag_of(t_pris, first, S)
        dc = dfas[i_dc].acc[S[i_dc]]
        if impl != want and not (dc and impl in (P + 'float', P + 'str')) and not dfas[i_np].acc[S[i_np]]:
            s = ''.join(automata.rep_char(syms[j]) for j in w)
            # confirm on the real resolver before reporting
            got = table_resolve(variant[0], s) if variant is not None else setup()[1].resolve(yaml.ScalarNode, s, (True, False))
            if got != impl:
                raise core.HarnessError('automaton says %r resolves to %s, Loader.resolve says %s' % (s, impl, got))
            res.violation('C09:lang%s:%s-as-%s' % (vname, want[len(P):], impl[len(P):]),
                          'all-lengths automata%s: shortest witness %r resolves to %s, expected %s' % (vname, s, impl, want),
                          {'kind': 'variant', 'variant': vname[1:], 'text': s} if variant is not None else {'kind': 'string', 'text': s})
        for j in range(len(syms)):
            res.transitions += 1
            T = tuple(d.tr[s][j] for d, s in zip(dfas, S))
            f2 = j if first is None else first
            if (f2, T) not in seen:
                seen[(f2, T)] = w + (j,)
                q.append((f2, T))
    res.states += nstates
    if variant is not None:
        res.hist['automata-variant' + vname] += nstates
        return None
    res.extra['all_lengths'] = 1
    res.extra['automata'] = {'regexes': len(rxs), 'symbol_classes': len(syms),
                             'dfa_states_max': max(len(d.tr) for d in dfas),
                             'product_states_x_first_char': nstates}
    res.hist['automata-product-states'] += nstates
    return list(zip(rxs, dfas))


# ------------------------------------------------------------------ loader variants (each in a fresh interpreter)

VARIANTS = ['deprecated-subclass', 'subclass-own-resolver-first', 'function-own-resolver', 'function-own-resolver-after-use',
            'second-function-after-own-resolver']
_ZZ = re.compile(r'^(?:zzz)$')


def make_variant(name):
    """build a loader the way a user may and return (its live resolver table, the expected non-bool/float table)"""
    from typing import Any
    import yatiml.loader as yl
    extra = False
    if name == 'deprecated-subclass':
        class L(yl.Loader):
            pass
        yl.set_document_type(L, Any)
        cls = L
    elif name == 'subclass-own-resolver-first':
        class L(yl.Loader):
            pass
        L.add_implicit_resolver('!zz', _ZZ, ['z'])
        yl.set_document_type(L, Any)
        cls, extra = L, True
    elif name == 'function-own-resolver':
        f = yatiml.load_function()
        f.loader.add_implicit_resolver('!zz', _ZZ, ['z'])
        cls, extra = f.loader, True
    elif name == 'function-own-resolver-after-use':
        f = yatiml.load_function()
        f('1.5')
        f.loader.add_implicit_resolver('!zz', _ZZ, ['z'])
        cls, extra = f.loader, True
    else:
        f = yatiml.load_function()
        f.loader.add_implicit_resolver('!zz', _ZZ, ['z'])
        f('yes')
        cls = yatiml.load_function(int).loader
    inst = cls('')
    pristine = {k: [(t, r) for t, r in v if t not in (P + 'float', P + 'bool')]
                for k, v in yaml.SafeLoader.yaml_implicit_resolvers.items()}
    if extra:
        pristine.setdefault('z', []).append(('!zz', _ZZ))
    return inst.yaml_implicit_resolvers, pristine


def variant_main(name):
    import json
    res = core.Result()
    run_automata(res, make_variant(name), ':' + name)
    print(json.dumps({'states': res.states, 'transitions': res.transitions,
                      'violations': res.violations, 'hist': dict(res.hist)}))


def run_variant(name, res):
    import json
    import subprocess
    import sys
    out = subprocess.run([sys.executable, '-c', 'from mc.props import C09; C09.variant_main(%r)' % name],
                         stdout=subprocess.PIPE, stderr=subprocess.PIPE, text=True)
    if out.returncode != 0:
        raise core.HarnessError('variant %s failed: %s' % (name, out.stderr[-400:]))
    d = json.loads(out.stdout.strip().splitlines()[-1])
    res.states += d['states']
    res.transitions += d['transitions']
    res.hist.update(d['hist'])
    for v in d['violations']:
        res.violations.append(v)
    res.traces += 1


# ------------------------------------------------------------------ driver

CONTEXT_TEXTS = ['true', 'True', 'TRUE', 'false', 'False', 'FALSE', 'yes', 'no', 'on', 'off', 'y', 'n', '1.5', '1e3', '.5', '5.', '.inf',
                 '-.inf', '.nan', '.NaN', '1', '0x1F', '1_000', '1e', '.', 'tRUE', 'null', '~', '2001-01-01', 'a', '+.5e-1', '1:30']


def run_context(res):
    """the typing of a plain scalar does not depend on what else the document holds: each text once quoted and once
    plain in ONE document, in either order and at several positions, must load as [str, what the plain text alone
    loads as] (a resolver that remembers by text, or a table patched at the wrong moment, shows here)"""
    load = yatiml.load_function()
    alone = {}
    for t in CONTEXT_TEXTS:
        try:
            alone[t] = ('ok', load(t))
        except Exception as e:     # noqa
            alone[t] = ('err', type(e).__name__)
    def same(a, b):
        return type(a) is type(b) and (a == b or (a != a and b != b))
    for t in CONTEXT_TEXTS:
        if alone[t][0] != 'ok':
            continue
        v = alone[t][1]
        for doc, pick in (('["%s", %s]' % (t, t), lambda d: (d[0], d[1])), ('[%s, "%s"]' % (t, t), lambda d: (d[1], d[0])),
                          ("{a: '%s', b: %s}" % (t, t), lambda d: (d['a'], d['b'])), ('- "%s"\n- [%s]\n' % (t, t), lambda d: (d[0], d[1][0])),
                          ('k: %s\nl: "%s"\nm: %s\n' % (t, t, t), lambda d: (d['l'], d['m']))):
            res.states += 1
            res.transitions += 1
            res.traces += 1
            res.nontrivial += 1
            try:
                q, pl = pick(load(doc))
                ok = type(q) is str and q == t and same(pl, v)
                got = (q, pl)
            except Exception as e:     # noqa
                ok, got = False, '%s: %s' % (type(e).__name__, e)
            if not ok:
                res.violation('C09:context:%s' % type(v).__name__,
                              'document %r gives %r for (quoted, plain); the quoted one is the string %r and the plain text alone loads as %r' % (
                                  doc, got, t, v), {'kind': 'context'})
            else:
                res.hist['context-ok'] += 1


def units(tier):
    b = BOUNDS(tier)
    out = [('automata',), ('context',)] + [('variant', v) for v in VARIANTS]
    for name, alpha, L in (('num', NUM_ALPHA, b['num_maxlen']), ('word', WORD_ALPHA, b['word_maxlen']),
                           ('tf', TF_ALPHA, b['tf_maxlen'])):
        out.append((name, '', 1))       # strings of length <= 1
        for a, c in itertools.product(alpha, repeat=2):
            out.append((name, a + c, L))
    return out


_DFAS = None


def run_unit(unit, tier):
    global _DFAS
    res = core.Result()
    if unit[0] == 'automata':
        run_automata(res)
        return res
    if unit[0] == 'variant':
        run_variant(unit[1], res)
        return res
    if unit[0] == 'context':
        run_context(res)
        return res
    if _DFAS is None:
        try:
            rxs, dfas, *_ = build_automata()
            _DFAS = list(zip(rxs, dfas))
        except automata.Unsupported:
            _DFAS = []
    name, prefix, L = unit
    alpha = ALPHAS[name]
    full = tier == 'thorough'
    if prefix == '':
        strings = [''] + list(alpha)
    else:
        strings = (prefix + ''.join(t) for n in range(0, L - 1) for t in itertools.product(alpha, repeat=n))
    for s in strings:
        res.states += 1
        check_string(s, res, full, _DFAS or None)
    return res


def finish(total, tier):
    if total.hist['float'] < 100 or total.hist['bool'] < 6:
        raise core.Vacuous('too few floats/bools reached: %r' % dict(total.hist))
    if not total.extra.get('all_lengths'):
        total.caps.append('automata translation unsupported for a regex of the table: all-lengths part skipped')


def replay(payload):
    res = core.Result()
    if payload.get('kind') == 'context':
        run_context(res)
        if res.violations:
            return True, '; '.join(v['what'] for v in res.violations[:3])
        return False, 'plain scalars are typed independently of quoted ones in the same document'
    if payload.get('kind') == 'variant':
        run_variant(payload['variant'], res)
        if res.violations:
            return True, '; '.join(v['what'] for v in res.violations[:3])
        return False, 'loader variant %s types plain scalars by the YAML 1.2 rules' % payload['variant']
    check_string(payload['text'], res, True, None)
    if res.violations:
        return True, '; '.join(v['what'] for v in res.violations)
    return False, 'text %r: resolves and loads as the YAML 1.2 rules say' % payload['text']
