"""C01 - a loaded value always conforms to the declared type.

Model families: the load catalogue, hierarchies, and adversarial models (permissive
_yatiml_recognize, node-rewriting _yatiml_savorize).  Documents: D(T) with tags, plus
the empty documents.  Oracle: conforms(value, T) all the way down, including the
constructor kwargs recorded by the generated classes.
"""
from mc import catalog, core, docs, loadcase, models, refsem
from mc.loadcase import show

PROPERTY = 'C01'
RULE = ('choice tree: model x document of D(T) (valid, every single-point mutation incl. every tag of the tag alphabet '
        'at every node, every tree <= n nodes, empty documents); every document that loads is checked with '
        'conforms(value, T); non-trivial = documents that load')
ASSUMPTIONS = [
    'conformance is judged from the constructor kwargs recorded by the generated classes (self-instrumenting models)',
    'plain data below Any/untyped positions = dict, list, str, int, float, bool, None, date/datetime, bytes',
]

REWRITES = [
    ('set_attr_scalar', 'x', 'str-not-int'), ('set_attr_scalar', 'x', 1.5), ('set_attr_scalar', 'x', True),
    ('set_attr_scalar', 'x', None), ('set_attr_node', 'x', ('q', 'seq', [('s', 'int', '1')])),
    ('set_attr_node', 'x', ('m', 'map', [])), ('remove_attr', 'x'), ('set_attr_scalar', 'unknown', 1),
    ('rename', 'x', 'z'), ('set_value', 'scalar'), ('make_mapping',), ('retag', '!Other'),
    ('retag_attr', 'x', '!Other'), ('retag_attr', 'x', '!!str'), ('retag', '!!seq'),
    ('replace_node', ('m', '!Other', [(('s', 'str', 'w'), ('s', 'str', 'v'))])),
    ('replace_node', ('s', 'str', 'v')), ('dup_key',),
    ('set_attr_node', 'x', ('s', '!Other', 'v')), ('set_attr_node', 'y', ('m', '!Other', [(('s', 'str', 'w'), ('s', 'int', '1'))])),
]


def adversarial_models():
    other = {'name': 'Other', 'params': [('w', 'any', None)]}
    perm = {'name': 'Pm', 'params': [('x', 'int'), ('y', 'str', 'd')], 'hooks': {'recognize': [('permissive',)]}}
    out = []
    for root in (('cls', 'Pm'), ('union', ['int', ('cls', 'Pm')]), ('list', ('cls', 'Pm')), ('dict', 'str', ('cls', 'Pm')),
                 ('opt', ('cls', 'Pm'))):
        out.append(('permissive', {'classes': catalog.BASE + [other, perm], 'root': root}))
    out.append(('permissive', {'classes': catalog.BASE + [other, {'name': 'A', 'params': [('x', 'int')]},
                                                          dict(perm, bases=['A'])], 'root': ('cls', 'A')}))
    out.append(('permissive', {'classes': catalog.BASE + [other, perm, {'name': 'K', 'params': [('p', ('cls', 'Pm')), ('o', ('cls', 'Other'), None)]}],
                               'root': ('cls', 'K')}))
    for kind in ('enum', 'userstring', 'ystring'):
        c = {'name': 'Pe', 'kind': kind, 'hooks': {'recognize': [('permissive',)]}}
        if kind == 'enum':
            c['members'] = ['a', 'b']
        out.append(('permissive', {'classes': catalog.BASE + [other, c], 'root': ('cls', 'Pe')}))
        out.append(('permissive', {'classes': catalog.BASE + [other, c], 'root': ('list', ('union', ['int', ('cls', 'Pe')]))}))
    # a user class that happens to be called Path, next to positions declared pathlib.Path
    for kind in ('strsub', 'userstring', 'ystring', 'plain'):
        up = {'name': 'Up', 'kind': kind, 'pyname': 'Path'}
        if kind == 'plain':
            up = {'name': 'Up', 'params': [('x', 'int')], 'pyname': 'Path'}
        out.append(('named-path', {'classes': catalog.BASE + [other, up], 'root': ('list', 'path')}))
        out.append(('named-path', {'classes': catalog.BASE + [other, up, {'name': 'K', 'params': [('p', 'path'), ('u', ('cls', 'Up'), None)]}],
                                   'root': ('cls', 'K')}))
        out.append(('named-path', {'classes': catalog.BASE + [other, up], 'root': ('dict', 'str', ('union', ['path', 'int']))}))
    for op in REWRITES:
        k = {'name': 'K', 'params': [('x', 'int'), ('y', 'any', None)], 'hooks': {'savorize': [op]}}
        out.append(('rewrite', {'classes': catalog.BASE + [other, k], 'root': ('cls', 'K')}))
        out.append(('rewrite', {'classes': catalog.BASE + [other, dict(k, extra=True)], 'root': ('list', ('cls', 'K'))}))
    for op in (('set_value', 'zzz'), ('set_value', 1), ('make_mapping',), ('retag', '!Other'), ('retag', '!!int'),
               ('replace_node', ('m', '!Other', [])), ('replace_node', ('q', 'seq', []))):
        out.append(('rewrite', {'classes': catalog.BASE + [other, {'name': 'Ee', 'kind': 'enum', 'members': ['a', 'b'],
                                                                   'hooks': {'savorize': [op]}}], 'root': ('cls', 'Ee')}))
        out.append(('rewrite', {'classes': catalog.BASE + [other, {'name': 'We', 'kind': 'userstring',
                                                                   'hooks': {'savorize': [op]}}], 'root': ('dict', ('cls', 'We'), ('cls', 'We'))}))
    return out


_CAT = {}


def cat(tier):
    if tier not in _CAT:
        c = list(catalog.all_load_models(tier)) + adversarial_models()
        hs = list(catalog.hierarchy_models(3 if tier == 'quick' else 4))
        step = 7 if tier == 'quick' else 3
        c += [('hier-' + n, s) for i, (n, s) in enumerate(hs) if i % step == 0]
        _CAT[tier] = c
    return _CAT[tier]


def BOUNDS(tier):
    return {'models': len(cat(tier)), 'collection_width': 2, 'tiny_nodes': 3 if tier == 'quick' else 4,
            'tags_per_document': 1, 'mutated_valid_docs_per_model': 8 if tier == 'quick' else 'all',
            'empty_documents': EMPTY}


def units(tier):
    return list(range(len(cat(tier))))


EMPTY = ['', '---\n', '# only a comment\n', '---\n...\n', '\n\n']


def check_doc(case, text, res, fam, kind):
    o = case.impl(text)
    res.traces += 1
    if o[0] != 'ok':
        res.hist[o[0]] += 1
        return o[0]
    res.hist['loaded'] += 1
    res.nontrivial += 1
    conf = refsem.Conformance(case.ref)
    if not conf.conforms(o[1], case.b.root):
        res.violation('C01:nonconforming:%s:%s' % (fam, kind.split(':')[0]),
                      'load of %r as %s returned %s, which does not conform' % (text, case.spec['root'], show(o[1])),
                      loadcase.payload(case.spec, text, fam=fam, dockind=kind))
    return 'ok'


def run_unit(unit, tier):
    res = core.Result()
    fam, spec = cat(tier)[unit]
    case = loadcase.Case(spec)
    names = [c.__name__ for c in case.b.registered]
    tags = docs.tag_alphabet(names, small=(tier == 'quick'))
    ds = loadcase.document_set(spec, case, tier, tags=tags, n_mut=8 if tier == 'quick' else None,
                               tiny_n=3 if tier == 'quick' else 4)
    n_ok = 0
    for kind, site, tree in ds:
        res.states += 1
        res.transitions += 1
        try:
            text = case.R.render(tree)
        except Exception:     # noqa
            res.hist['unrenderable'] += 1
            continue
        if check_doc(case, text, res, fam, kind) == 'ok':
            n_ok += 1
            if kind.startswith('tag'):
                res.sample({'root': str(spec['root']), 'text': text, 'kind': kind}, 1)
    for text in EMPTY:
        res.states += 1
        res.transitions += 1
        check_doc(case, text, res, fam, 'empty')
    res.hist['models:' + fam.split('-')[0]] += 1
    if n_ok == 0:
        res.hist['model-never-loads:' + fam] += 1
    return res


def finish(total, tier):
    if total.hist['loaded'] < 5000:
        raise core.Vacuous('too few documents loaded: %r' % dict(total.hist))


def replay(payload):
    case = loadcase.Case(payload['spec'])
    res = core.Result()
    o = check_doc(case, payload['text'], res, payload.get('fam', '?'), payload.get('dockind', '?'))
    if res.violations:
        return True, res.violations[0]['what']
    return False, 'load(%r) -> %s, conforming' % (payload['text'], o)
