"""Reference semantics of the documented yatiml load pipeline (DESIGN.md 2.4).

An executable statement of docs/problem_solving.rst "The YAtiML pipeline",
docs/advanced_features.rst and docs/recipes.rst.  No import of yatiml: the marker
types (bool_union_fix, String) and the scalar resolver are passed in.  Works on tuple
trees ('s'|'q'|'m', full tag, value).

Calibration points (where the documentation is silent the reference follows the
observed behaviour of the pinned tree; a *change* of any of them is reported):
  K1  an optional parameter that is present with an unrecognisable value prevents
      recognition of the class                         (observed; recognizer.py:270-289)
  K2  unknown keys do not prevent recognition; they are rejected at construction
      unless the class takes _yatiml_extra              (docs: problem_solving "extra")
  K3  a tag naming a matching concrete class of the hierarchy selects it even if a
      more derived class also matches          (tests: test_user_class_override2)
  K4  with an unknown or non-matching application tag and exactly one candidate the
      node is rejected; with several candidates it is ambiguous either way
  K5  enum members are recognised from str- and bool-tagged scalars (test_enum)
  K6  sequences/mappings must carry the plain seq/map tag when they are processed
  K7  a class mapping is looked up by exact parameter name first, dashed name second,
      during recognition only; construction uses exact names (docs: "dashes")
  K8  savorize hooks run for registered direct bases first, own-body hooks only
"""
import abc
import collections
import collections.abc as cabc
import datetime
import enum
import inspect
import pathlib
import typing
from typing import Any, Union

import yaml
from mc import models

P = 'tag:yaml.org,2002:'


class Reject(Exception):
    pass


_sc = yaml.constructor.SafeConstructor()
_CTORS = {P + 'int': _sc.construct_yaml_int, P + 'float': _sc.construct_yaml_float,
          P + 'bool': _sc.construct_yaml_bool, P + 'null': _sc.construct_yaml_null,
          P + 'timestamp': _sc.construct_yaml_timestamp, P + 'str': _sc.construct_yaml_str,
          P + 'binary': _sc.construct_yaml_binary}


class CtorFail(Exception):
    """PyYAML has no constructor for the node / its own constructor refuses the content."""


def parse_scalar(tag, value):
    f = _CTORS.get(tag)
    if f is None:
        raise CtorFail('no constructor for ' + tag)
    try:
        return f(yaml.ScalarNode(tag, str(value)))      # str(): drop the QuotedStr marker
    except yaml.YAMLError as e:
        raise CtorFail(str(e))


def plain(n):
    """what PyYAML's SafeLoader builds from a tag-stripped tree (order kept)"""
    k, tag, v = n
    if k == 's':
        return parse_scalar(tag, v)
    if k == 'q':
        if tag not in (P + 'seq',):
            raise CtorFail('collection tag ' + tag)
        return [plain(i) for i in v]
    if tag != P + 'map':
        raise CtorFail('collection tag ' + tag)
    d = {}
    for a, b in flat_pairs(n):
        key = plain(a)
        try:
            hash(key)
        except TypeError:
            raise CtorFail('unhashable key')
        d[key] = plain(b)
    return d


def flat_pairs(n):
    """the (key, value) pairs of a mapping after PyYAML's merge-key flattening (SafeConstructor.flatten_mapping):
    pairs merged in through '<<' come first, the mapping's own pairs follow (and so win)"""
    merge = []
    own = []
    for a, b in n[2]:
        if a[0] == 's' and a[1] == P + 'merge':
            if b[0] == 'm':
                merge.extend(flat_pairs(b))
            elif b[0] == 'q':
                sub = []
                for it in b[2]:
                    if it[0] != 'm':
                        raise CtorFail('merge of a non-mapping')
                    sub.append(flat_pairs(it))
                for pairs in reversed(sub):
                    merge.extend(pairs)
            else:
                raise CtorFail('merge of a scalar')
        elif a[0] == 's' and a[1] == P + 'value':
            own.append((('s', P + 'str', a[2]), b))
        else:
            own.append((a, b))
    return merge + own


# ---------------------------------------------------------------- reference seasoning on trees

def _mget(n, key):
    return [b for a, b in n[2] if a[0] == 's' and a[2] == key]


def _mset(n, key, val):
    pairs = list(n[2])
    for i, (a, b) in enumerate(pairs):
        if a[2] == key:
            pairs[i] = (a, val)
            return ('m', n[1], tuple(pairs))
    pairs.append((('s', P + 'str', key), val))
    return ('m', n[1], tuple(pairs))


def ref_op(n, op):
    """reference implementation of the declarative seasoning helpers, from their docstrings"""
    k = op[0]
    if k == 'log':
        return n
    if k == 'dashes_to_unders':
        if n[0] != 'm':
            return n
        return ('m', n[1], tuple((('s', a[1], a[2].replace('-', '_')) if a[0] == 's' else a, b) for a, b in n[2]))
    if k == 'rename':
        if n[0] != 'm':
            return n
        pairs = list(n[2])
        for i, (a, b) in enumerate(pairs):
            if a[0] == 's' and a[2] == op[1]:
                pairs[i] = (('s', a[1], op[2]), b)
                break
        return ('m', n[1], tuple(pairs))
    if k == 'map_to_seq':
        attr, keyattr, valattr = op[1], op[2], op[3]
        if n[0] != 'm' or not _mget(n, attr) or _mget(n, attr)[0][0] != 'm':
            return n
        items = []
        for a, b in _mget(n, attr)[0][2]:
            if b[0] != 'm':
                if valattr is None:
                    return n
                b = ('m', P + 'map', ((('s', P + 'str', valattr), b),))
            b = _mset(b, keyattr, a)      # the key node itself: its type and text
            items.append(b)
        return _mset(n, attr, ('q', P + 'seq', tuple(items)))
    if k == 'map_to_index':
        attr, keyattr, valattr = op[1], op[2], op[3]
        if n[0] != 'm' or not _mget(n, attr) or _mget(n, attr)[0][0] != 'm':
            return n
        pairs = []
        for a, b in _mget(n, attr)[0][2]:
            if b[0] != 'm' and valattr is not None:
                b = ('m', P + 'map', ((('s', P + 'str', valattr), b),))
            if b[0] == 'm' and not _mget(b, keyattr):
                b = ('m', b[1], b[2] + ((('s', P + 'str', keyattr), a),))
            pairs.append((a, b))
        inner = _mget(n, attr)[0]
        return _mset(n, attr, ('m', inner[1], tuple(pairs)))
    if k == 'stamp':
        # the non-idempotent marker of mc/models.py: the n-th stamp of its family gets n, a repeated one +100
        if n[0] != 'm':
            return n
        cur = _mget(n, op[1])
        if cur:
            return _mset(n, op[1], ('s', P + 'int', str(int(cur[0][2]) + 100)))
        cnt = sum(1 for a, b in n[2] if a[0] == 's' and str(a[2]).startswith(op[1][:2]))
        return _mset(n, op[1], ('s', P + 'int', str(cnt + 1)))
    if k == 'share_attr':
        # trees have no identity: the second attribute gets an equal node of its own
        if n[0] == 'm' and _mget(n, op[1]) and not _mget(n, op[2]):
            if len(_mget(n, op[1])) > 1:
                raise Reject('attribute given twice')
            return _mset(n, op[2], _mget(n, op[1])[0])
        return n
    if k == 'scalar_to_attr':
        if n[0] == 's':
            return ('m', P + 'map', ((('s', P + 'str', op[1]), n),))
        return n
    raise Reject('reference has no model for seasoning op %r' % (op,))


NON_STRING_SCALAR_TAGS = {P + t for t in ('null', 'bool', 'int', 'float', 'timestamp', 'binary')}


class Ref:
    def __init__(self, registered, bool_union_fix, String, resolver):
        self.reg = list(registered)
        self.byname = {'!' + c.__name__: c for c in registered}
        self.buf = bool_union_fix
        self.String = String
        self.resolve = resolver
        self.ctor_log = []

    # ---- type predicates
    def is_union(self, T):
        return typing.get_origin(T) is Union

    def is_seq(self, T):
        return typing.get_origin(T) in (list, cabc.Sequence, cabc.MutableSequence)

    def is_map(self, T):
        return typing.get_origin(T) in (dict, cabc.Mapping, cabc.MutableMapping)

    def is_strlike(self, T):
        return inspect.isclass(T) and issubclass(T, (str, collections.UserString, self.String))

    def is_abstract(self, T):
        return inspect.isabstract(T) or abc.ABC in T.__bases__

    def params(self, C):
        sig = inspect.signature(C.__init__)
        out = []
        for name, p in list(sig.parameters.items())[1:]:
            if name == '_yatiml_extra':
                continue
            if p.kind is not p.POSITIONAL_OR_KEYWORD:
                continue
            out.append((name, Any if p.annotation is p.empty else p.annotation, p.default is p.empty))
        return out

    def takes_extra(self, C):
        return '_yatiml_extra' in inspect.signature(C.__init__).parameters

    def scalar_tag(self, T):
        return {str: 'str', int: 'int', float: 'float', bool: 'bool', self.buf: 'bool', type(None): 'null',
                None: 'null', datetime.date: 'timestamp'}.get(T)

    # ---- recognition
    def recognize(self, n, T):
        if T is Any:
            return {Any}
        if not (self.is_union(T) or self.is_seq(T) or self.is_map(T)):
            st = self.scalar_tag(T)
            if st is not None:
                return {T} if n[0] == 's' and n[1] == P + st else set()
        if T is pathlib.Path:
            return {T} if n[0] == 's' and n[1] == P + 'str' else set()
        if self.is_union(T):
            out = set()
            for m in typing.get_args(T):
                out |= self.recognize(n, m)
            if bool in out and self.buf in out:
                out.discard(self.buf)
            # an explicit tag naming one of several remaining candidates selects it, whatever kind the others are
            if len(out) > 1 and n[1] in self.byname and self.byname[n[1]] in out:
                return {self.byname[n[1]]}
            return out
        if self.is_seq(T):
            if n[0] != 'q':
                return set()
            it = typing.get_args(T)[0]
            amb = None
            for i in n[2]:
                r = self.recognize(i, it)
                if not r:
                    return set()          # one unrecognisable item decides, wherever it stands
                if len(r) > 1 and amb is None:
                    amb = {('ambiguous-list', x) for x in r}
            return amb if amb is not None else {T}
        if self.is_map(T):
            kt, vt = typing.get_args(T)
            if not self.is_strlike(kt):
                raise RuntimeError('unsupported key type')
            if n[0] != 'm':
                return set()
            amb = None
            for a, b in n[2]:
                r = self.recognize(a, kt)
                if not r:
                    return set()
                if len(r) > 1 and amb is None:
                    amb = {('ambiguous-dict', x) for x in r}
                r = self.recognize(b, vt)
                if not r:
                    return set()
                if len(r) > 1 and amb is None:
                    amb = {('ambiguous-dict', x) for x in r}
            return amb if amb is not None else {T}
        if T in self.reg:
            return self.rec_classes(n, T)
        raise Reject('unregistered type %r' % (T,))

    def hierarchy(self, K):
        H = [K]
        i = 0
        while i < len(H):
            for c in self.reg:
                if H[i] in c.__bases__ and c not in H:
                    H.append(c)
            i += 1
        return H

    def descendants(self, K):
        return self.hierarchy(K)[1:]

    def rec_classes(self, n, K):
        H = self.hierarchy(K)
        tag = n[1]
        match = {c for c in H if not self.is_abstract(c) and self.own_match(n, c)}
        most = {c for c in match if not any(d in match for d in self.descendants(c))}
        if not tag.startswith('tag:yaml.org,2002'):
            # K3/K4: every class of the hierarchy checks an application tag against itself, so a
            # tag naming a registered class selects exactly that class (if it is a concrete member
            # of the hierarchy that matches the node itself); any other application tag rejects.
            if tag in self.byname:
                Tg = self.byname[tag]
                return {Tg} if Tg in match else set()
            return set()
        # a core tag that contradicts the kind of node names an incompatible type ('!!int {a: 1}')
        if (n[0] == 'm' and tag != P + 'map') or (n[0] == 'q' and tag != P + 'seq'):
            return set()
        return most

    def untagged(self, n, C):
        """a scalar carrying the explicit tag of class C, as C's own hooks are to see it: the tag says which class it
        is, the hooks ask what kind of scalar it is (plain: what the text resolves to; quoted: a string)"""
        if n[0] == 's' and n[1] == '!' + C.__name__:
            return ('s', P + 'str' if isinstance(n[2], models.QuotedStr) else self.resolve(n[2]), n[2])
        return n

    def own_match(self, n, C):
        if '_ops_recognize' in C.__dict__:
            n = self.untagged(n, C)
            return all(self.rec_op(n, op) for op in C.__dict__['_ops_recognize'])
        # an explicit tag naming the class itself replaces the scalar's own tag (K3 applied to scalar classes)
        if issubclass(C, enum.Enum):
            return n[0] == 's' and n[1] in (P + 'str', P + 'bool', '!' + C.__name__)        # K5
        if self.is_strlike(C):
            return n[0] == 's' and n[1] in (P + 'str', '!' + C.__name__)
        if n[0] != 'm':
            return False
        for name, T, req in self.params(C):
            # K7: a key stands for the parameter it equals after its dashes are replaced by underscores
            # exact name, fully dashed name, then partly dashed spellings - in an order that does not depend on the
            # order of the keys in the document (reordering the keys of a class mapping changes nothing, C13)
            cands = [name, name.replace('_', '-')] + sorted(a[2] for a, b in n[2] if a[0] == 's' and isinstance(a[2], str)
                                                            and a[2].replace('-', '_') == name)
            for nm in cands:
                # attribute names are strings: a key that YAML reads as null / bool / int / float / timestamp / binary is
                # not the attribute of the same spelling (P65)
                vs = [b for a, b in n[2] if a[0] == 's' and a[2] == nm and a[1] not in NON_STRING_SCALAR_TAGS]
                if vs:
                    if len(vs) > 1:
                        return False          # a parameter given twice: this mapping is not a C
                    if not self.recognize(vs[0], T):                          # K1
                        return False
                    break
            else:
                if req:
                    return False
        return True

    def rec_op(self, n, op):
        """reference for the UnknownNode.require_* helpers, from their docstrings"""
        k = op[0]
        if k in ('permissive', 'log'):
            return True
        if k == 'require_mapping':
            return n[0] == 'm'
        if k == 'require_sequence':
            return n[0] == 'q'
        if k == 'require_scalar':
            if n[0] != 's':
                return False
            return not op[1] or any(n[1] == P + {'int': 'int', 'str': 'str', 'float': 'float', 'bool': 'bool',
                                                 'none': 'null'}[t] for t in op[1])
        if k == 'require_attr':
            if n[0] != 'm':
                return False
            vs = [b for a, b in n[2] if a[0] == 's' and a[1] == P + 'str' and a[2] == op[1]]
            if not vs:
                return False
            if len(op) > 2:
                return bool(self.recognize(vs[0], self._type(op[2])))
            return True
        if k in ('require_attr_value', 'require_attr_value_not'):
            if n[0] != 'm':
                return False
            vs = [b for a, b in n[2] if a[0] == 's' and a[1] == P + 'str' and a[2] == op[1]]
            if not vs:
                return False
            want = op[2]
            wtag = P + {str: 'str', int: 'int', float: 'float', bool: 'bool', type(None): 'null'}[type(want)]
            for b in vs:
                same = b[0] == 's' and b[1] == wtag and parse_scalar(b[1], b[2]) == want
                if k == 'require_attr_value' and not same:
                    return False
                if k == 'require_attr_value_not' and same:
                    return False
            return True
        raise Reject('reference has no model for recognition op %r' % (op,))

    def _type(self, t):
        return self.type_of(t)

    # ---- loading
    def load(self, n, T):
        r = self.recognize(n, T)
        if len(r) != 1:
            raise Reject('recognized %d types' % len(r))
        R = next(iter(r))
        if isinstance(R, tuple):
            raise Reject('ambiguous')
        if R is Any:
            return self.load_any(n)
        if self.is_seq(R):
            if n[1] != P + 'seq':                                             # K6
                raise Reject('seq tag')
            return [self.load(i, typing.get_args(R)[0]) for i in n[2]]
        if self.is_map(R):
            if n[1] != P + 'map':
                raise Reject('map tag')
            kt, vt = typing.get_args(R)
            d = {}
            for a, b in n[2]:
                key = self.load(a, kt)
                d[key] = self.load(b, vt)
            return d
        if R in self.reg:
            n = self.savorize(self.untagged(n, R), R)
            if issubclass(R, enum.Enum):
                if n[0] != 's' or n[2] not in R.__members__:
                    raise Reject('enum member')
                return R[n[2]]
            if self.is_strlike(R):
                if n[0] != 's':
                    raise Reject('strlike')
                try:
                    return R(str(n[2]))
                except Exception:
                    raise Reject('ctor raised')
            return self.construct(n, R)
        if R is pathlib.Path:
            return pathlib.Path(str(n[2]))
        st = self.scalar_tag(R)
        return parse_scalar(P + st, n[2])

    def savorize(self, n, C, done=None):
        done = set() if done is None else done
        done.add(C)
        for b in C.__bases__:                                                 # K8
            if b in self.reg and b not in done:    # a base reached along two paths is savorized once
                n = self.savorize(n, b, done)
        if '_ops_savorize' in C.__dict__:
            for op in C.__dict__['_ops_savorize']:
                n = ref_op(n, op)
        return n

    def load_any(self, n):
        return plain(self.strip(n))

    def strip(self, n):
        k, tag, v = n
        if k == 's':
            if not tag.startswith(P):
                # the tag is ignored: a plain scalar is whatever its text resolves to, a quoted one is a string
                tag = P + 'str' if isinstance(v, models.QuotedStr) else self.resolve(v)
            return (k, tag, v)
        if k == 'q':
            return (k, P + 'seq', tuple(self.strip(i) for i in v))
        return (k, P + 'map', tuple((self.strip(a), self.strip(b)) for a, b in v))

    def construct(self, n, C):
        if n[0] != 'm':
            raise Reject('not a mapping after savorize')
        params = self.params(C)
        names = [p[0] for p in params]
        sigargs = list(inspect.signature(C.__init__).parameters)
        kw = {}
        extra = collections.OrderedDict()
        seen = {}
        for a, b in n[2]:
            if a[0] != 's' or a[1] != P + 'str':
                raise Reject('non-string key')
        for a, b in n[2]:
            seen.setdefault(a[2], []).append(b)
        if any(len(v) > 1 for v in seen.values()):
            raise Reject('a key occurs twice')       # parameters and extras alike
        for name, T, req in params:
            if name in seen:
                if len(seen[name]) > 1:
                    raise Reject('duplicate key')
                kw[name] = self.load(seen[name][0], T)
        for a, b in n[2]:
            key = a[2]
            if key in names:
                continue
            if not self.takes_extra(C):
                raise Reject('unknown key ' + key)
            extra[key] = self.load_any(b)
        for name, T, req in params:
            if req and name not in kw:
                raise Reject('missing ' + name)
        if self.takes_extra(C):
            kw['_yatiml_extra'] = extra
        try:
            return C(**kw)
        except Exception:
            raise Reject('ctor raised')


# ---------------------------------------------------------------- conformance (C01)

def plain_data(v):
    if v is None or type(v) in (str, int, float, bool, bytes, datetime.date, datetime.datetime):
        return True
    if type(v) is list:
        return all(plain_data(x) for x in v)
    if type(v) in (dict, collections.OrderedDict):
        return all(plain_data(k) and plain_data(x) for k, x in v.items())
    if type(v) is set:
        return all(plain_data(x) for x in v)
    if type(v) is tuple:
        return all(plain_data(x) for x in v)
    return False


class Conformance:
    """conforms(value, T) all the way down, incl. recorded constructor kwargs (C01 oracle)"""

    def __init__(self, ref):
        self.ref = ref

    def conforms(self, v, T):
        r = self.ref
        if T is Any:
            return plain_data(v)
        if r.is_union(T):
            return any(self.conforms(v, m) for m in typing.get_args(T))
        if r.is_seq(T):
            return type(v) is list and all(self.conforms(x, typing.get_args(T)[0]) for x in v)
        if r.is_map(T):
            kt, vt = typing.get_args(T)
            return type(v) in (dict, collections.OrderedDict) and all(
                self.conforms(k, kt) and self.conforms(x, vt) for k, x in v.items())
        if T in (type(None), None):
            return v is None
        if T is r.buf:
            return type(v) is bool
        if T in (str, int, float, bool):
            return type(v) is T
        if T is datetime.date:
            return isinstance(v, datetime.date)
        if T is pathlib.Path:
            return isinstance(v, pathlib.PurePath)
        if T in r.reg:
            C = type(v)
            if C is not T and not (C in r.reg and issubclass(C, T)):
                return False
            if r.is_abstract(C):
                return False
            if issubclass(C, enum.Enum):
                return v in C
            if r.is_strlike(C):
                return True
            kw = getattr(v, '_kw', None)
            if kw is None:
                return False
            params = {p[0]: p for p in r.params(C)}
            for k, x in kw.items():
                if k == '_yatiml_extra':
                    if x is not None and not (isinstance(x, collections.OrderedDict) and plain_data(x)
                                              and all(type(kk) is str for kk in x)):
                        return False
                    continue
                if k not in params:
                    return False
                name, PT, req = params[k]
                default = inspect.signature(C.__init__).parameters[k].default
                if not req and x is default:
                    continue
                if not self.conforms(x, PT):
                    return False
            return True
        return False
