"""setup_cmd: byte-compiles nothing into /repo, checks the toolchain and the explorer itself.

A toy space with a known number of states and a planted violation is explored through
the same driver as the real properties; the automata translation is compared with
re.match on a small universe.
"""
import itertools
import os
import re
import sys

from mc import automata, core


class Toy:
    PROPERTY = 'TOY'
    RULE = 'toy'
    BOUNDS = {}
    ASSUMPTIONS = []

    @staticmethod
    def units(tier):
        return list(range(4))

    @staticmethod
    def run_unit(u, tier):
        r = core.Result()
        for t in itertools.product(range(3), repeat=3):
            r.states += 1
            r.traces += 1
            if (u, t) == (2, (1, 1, 1)):
                r.violation('TOY:planted', 'planted', {'u': u, 't': list(t)})
        return r


def main():
    import yaml
    import yatiml
    total = core.explore(Toy, 'quick', 0, jobs=4)
    assert total.states == 4 * 27, total.states
    assert [v['key'] for v in total.violations] == ['TOY:planted'], total.violations
    total2 = core.explore(Toy, 'quick', 7, jobs=2)
    assert total2.states == total.states
    # automata translation against re.match
    for pat in [r'^(?:ab|a[0-9]+)$', r'^(?:x*y?)', r'(?:a|b){2,3}\Z', r'^[-+]?\.(?:inf|Inf)$']:
        rx = re.compile(pat)
        n = automata.compile_nfa(rx)
        syms = automata.alphabet([n])
        d = automata.to_dfa(n, syms)
        for L in range(5):
            for t in itertools.product('ab0x.y-i\n', repeat=L):
                s = ''.join(t)
                assert d.accepts(s) == (rx.match(s) is not None), (pat, s)
    print('selftest ok: explorer, sharding, automata; yatiml %s from %s; PyYAML %s' % (
        yatiml.__version__, os.path.dirname(yatiml.__file__), yaml.__version__))
    return 0
