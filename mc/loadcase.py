"""A built class model bound to the real load function, a renderer and the reference semantics."""
import collections
import datetime
import math

import yaml
import yatiml

from mc import docs, models, refsem
from mc.core import tb_site
from mc.models import LOG

P = models.P


def eqv(a, b):
    """structural equality: nan-aware, class-exact, order-sensitive"""
    if type(a) is not type(b):
        # OrderedDict vs dict are both "ordered mappings"
        if isinstance(a, dict) and isinstance(b, dict):
            return list(a.keys()) == list(b.keys()) and all(eqv(a[k], b[k]) for k in a)
        return False
    if isinstance(a, float):
        return a == b and math.copysign(1, a) == math.copysign(1, b) or (a != a and b != b)
    if isinstance(a, list):
        return len(a) == len(b) and all(eqv(x, y) for x, y in zip(a, b))
    if isinstance(a, dict):
        return len(a) == len(b) and all(eqv(ka, kb) and eqv(a[ka], b[kb]) for ka, kb in zip(a.keys(), b.keys()))
    if hasattr(a, '_kw'):
        return eqv(a._kw, b._kw)
    return a == b


def _safe_repr(v, depth=0):
    """repr() that survives ints beyond the int-to-str digit limit"""
    if isinstance(v, int) and not isinstance(v, bool):
        try:
            return repr(v)
        except ValueError:
            return '<int of %d bits>' % v.bit_length()
    if depth > 6:
        return '...'
    if isinstance(v, list):
        return '[%s]' % ', '.join(_safe_repr(x, depth + 1) for x in v)
    if isinstance(v, dict):
        return '{%s}' % ', '.join('%s: %s' % (_safe_repr(k, depth + 1), _safe_repr(x, depth + 1)) for k, x in v.items())
    kw = getattr(v, '_kw', None)
    if isinstance(kw, dict):
        return '%s(%s)' % (type(v).__name__, ', '.join('%s=%s' % (k, _safe_repr(x, depth + 1)) for k, x in kw.items()))
    try:
        return repr(v)
    except Exception as e:     # noqa
        return '<unreprable %s>' % type(e).__name__


def show(v):
    try:
        return repr(v)[:300]
    except ValueError:
        return _safe_repr(v)[:300]
    except Exception as e:     # noqa
        return '<unreprable %s>' % type(e).__name__


class Case:
    def __init__(self, spec, extra_classes=()):
        self.spec = spec
        self.b = models.build(spec)
        self.load = yatiml.load_function(self.b.root, *(list(self.b.registered) + list(extra_classes)))
        self.R = docs.Renderer(self.load.loader)
        inst = self.load.loader('')
        self.inst = inst
        self.ref = refsem.Ref(list(self.b.registered) + list(extra_classes), yatiml.bool_union_fix, yatiml.String,
                              lambda v: inst.resolve(yaml.ScalarNode, v, (True, False)))
        self.ref.type_of = lambda t: models.type_of(self.b, t)

    def impl(self, text):
        """('ok', value) | ('rej', message) | ('yamlerr', class name) | ('exc', exception)"""
        del LOG[:]
        try:
            return ('ok', self.load(text))
        except yatiml.RecognitionError as e:
            return ('rej', str(e))
        except yaml.YAMLError as e:
            return ('yamlerr', type(e).__name__, e)
        except RecursionError as e:
            return ('exc', e)
        except Exception as e:     # noqa
            return ('exc', e)

    def impl_stream(self, text):
        """the same document read as a one-document STREAM (yaml.load_all with the function's loader class, which
        goes through Loader.get_node instead of get_single_node); same result shape as impl()"""
        del LOG[:]
        try:
            docs_ = list(yaml.load_all(text, Loader=self.load.loader))
            if len(docs_) != 1:
                return ('exc', ValueError('%d documents' % len(docs_)))
            return ('ok', docs_[0])
        except yatiml.RecognitionError as e:
            return ('rej', str(e))
        except yaml.YAMLError as e:
            return ('yamlerr', type(e).__name__, e)
        except Exception as e:     # noqa
            return ('exc', e)

    def reference(self, tree):
        """tree: composed view (full tags).  ('ok', v) | ('rej', why) | ('ctorfail', why) | ('referr', e)"""
        try:
            return ('ok', self.ref.load(tree, self.b.root))
        except refsem.Reject as e:
            return ('rej', str(e))
        except refsem.CtorFail as e:
            return ('ctorfail', str(e))
        except RecursionError as e:
            return ('referr', e)


def exc_key(e):
    return '%s@%s' % (type(e).__name__, tb_site(e))


def payload(spec, text, **kw):
    d = {'spec': spec, 'text': text, 'model': models.source_of(spec)}
    d.update(kw)
    return d


def document_set(spec, case, tier, tags=(), n_mut=None, tiny_n=3, k=2, enum_nonmember='zzz'):
    """D(T) of DESIGN.md 2.3 as a list of (kind, site, tree); de-duplicated, order fixed."""
    root = spec['root']
    trees = docs.valid(spec, root, k=k)
    out = []
    seen = set()

    def add(kind, site, t):
        if t not in seen:
            seen.add(t)
            out.append((kind, site, t))
    for t in trees:
        add('valid', None, t)
    lim = len(trees) if n_mut is None else n_mut
    for t in trees[:lim]:
        for kind, site, mt in docs.mutations(t, tags, enum_nonmember):
            add(kind, site, mt)
    keys = []
    for c in spec['classes']:
        for p in c.get('params', []):
            if p[0] not in keys:
                keys.append(p[0])
    keys = tuple(keys[:2]) if keys else ('a',)
    if len(keys) < 2:
        keys = keys + ('zq',)
    for t in docs.tiny(tiny_n, keys):
        add('tiny', None, t)
    return out
