"""Deterministic scheduler for real Python threads (DESIGN.md C11b).

Threads run the real code; a per-thread trace function (sys.settrace) turns chosen events into
*scheduling points* and a semaphore baton lets exactly one thread run at a time.  A schedule is
the list of choices taken at the points: 0 = the running thread continues, k > 0 = switch to the
k-th other live thread (ascending id).  Switching away from a runnable thread is a preemption.

Scheduling points, by granularity:
  'call'   every call of a function defined in the watched files
  'hot'    additionally every line of the functions named in `hot`
  'lines'  every line of every function in the `line_files`
Nothing else in the process runs concurrently, so an execution is a deterministic function of
its schedule; `run` raises on divergence from a replayed prefix.
"""
import os
import sys
import threading


class Divergence(Exception):
    pass


class Sched:
    def __init__(self, prefix, watched, line_files=(), hot=(), granularity='call', max_points=200000):
        self.prefix = list(prefix)
        self.watched = tuple(watched)          # directory / file prefixes whose calls are points
        self.line_files = tuple(line_files)
        self.hot = set(hot)                    # (basename, function name)
        self.gran = granularity
        self.choices = []
        self.width = []                        # number of enabled threads at each point
        self._what = []                        # (code, line) of each point
        self.nprefix = len(self.prefix)
        self.nlive = 0
        self.sem = {}
        self.done = set()
        self.max_points = max_points
        self.error = None
        self._codes = {}

    # ---- classification of code objects (cached)
    def _cls(self, code):
        c = self._codes.get(code)
        if c is None:
            fn = code.co_filename
            point = fn.startswith(self.watched)
            lines = False
            if point:
                if self.gran == 'lines' and fn.startswith(self.line_files):
                    lines = True
                elif self.gran == 'hot' and (os.path.basename(fn), code.co_name) in self.hot:
                    lines = True
            c = self._codes[code] = (point, lines)
        return c

    def tracer(self, tid):
        def local(frame, event, arg):
            if event == 'line':
                self.point(tid, frame)
            return local

        def glob(frame, event, arg):
            point, lines = self._cls(frame.f_code)
            if not point:
                return None
            self.point(tid, frame)
            return local if lines else None
        return glob

    def point(self, tid, frame):
        i = len(self.choices)
        n = self.nlive
        c = 0
        if i < self.nprefix:
            c = self.prefix[i]
            if c >= n:
                if self.error is None:
                    self.error = 'divergence at point %d: choice %d of %d' % (i, c, n)
                c = 0
        elif i >= self.max_points:
            if self.error is None:
                self.error = 'more than %d scheduling points' % self.max_points
            return
        self.choices.append(c)
        self.width.append(n)
        self._what.append((frame.f_code, frame.f_lineno))
        if c and self.error is None:
            others = [t for t in sorted(self.sem) if t != tid and t not in self.done]
            nxt = others[c - 1]
            self.sem[nxt].release()
            self.sem[tid].acquire()

    @property
    def what(self):
        return ['%s:%s:%d' % (os.path.basename(c.co_filename), c.co_name, ln) for c, ln in self._what]

    def run(self, bodies):
        """bodies: list of zero-argument callables; returns {tid: ('ok', value) | ('exc', type name, text)}"""
        res = {}
        fin = threading.Semaphore(0)

        def wrap(tid, body):
            def f():
                self.sem[tid].acquire()
                sys.settrace(self.tracer(tid))
                try:
                    res[tid] = ('ok', body())
                except BaseException as e:     # noqa
                    sys.settrace(None)
                    res[tid] = ('exc', type(e).__name__, str(e)[:300])
                finally:
                    sys.settrace(None)
                    self.done.add(tid)
                    self.nlive -= 1
                    rest = [t for t in sorted(self.sem) if t not in self.done]
                    if rest:
                        self.sem[rest[0]].release()
                    else:
                        fin.release()
            return f
        ths = []
        for tid, b in enumerate(bodies):
            self.sem[tid] = threading.Semaphore(0)
            ths.append(threading.Thread(target=wrap(tid, b), daemon=True))
        self.nlive = len(ths)
        for t in ths:
            t.start()
        self.sem[0].release()
        if not fin.acquire(timeout=60):
            raise Divergence('deadlock or hang: threads done=%s' % sorted(self.done))
        for t in ths:
            t.join(5)
        if self.error:
            raise Divergence(self.error)
        if len(self.choices) < len(self.prefix):
            raise Divergence('execution ended after %d points, prefix has %d' % (len(self.choices), len(self.prefix)))
        return res

    def preemptions(self, upto=None):
        ch = self.choices if upto is None else self.choices[:upto]
        return sum(1 for c in ch if c)
